#!/bin/bash
# tools/confirm_seed.sh <worktree> <name> <check-ids...>
# 1. confirms in the scratch worktree that the demonstration fails with the change and passes without it,
#    and that the repository's own test suite passes with the change;
# 2. copies SEED/* to /verif/seeded/<name>/;
# 3. applies the patch to /repo, runs the given checks (quick tier), reverts /repo.
set -u
WT="$1"; NAME="$2"; shift 2
OUT=/verif/seeded/$NAME
mkdir -p "$OUT"
# CONFIRM_PHASE=demo: only steps 1-2 (nothing touches /repo); CONFIRM_PHASE=check: only step 3 (after a demo phase)
PHASE="${CONFIRM_PHASE:-all}"
if [ "$PHASE" != "check" ]; then
cd "$WT" || exit 2
DEMO_CMD=$(python3 -c "import json,re;print(re.split(r'\s+\(|;|&&', json.load(open('SEED/meta.json')).get('demo_cmd','cargo test --offline --test seed_demo'))[0].strip())")
case "$DEMO_CMD" in *--offline*) ;; *) DEMO_CMD="$DEMO_CMD --offline";; esac
echo "demo_cmd: $DEMO_CMD"
# with the change
( eval "$DEMO_CMD" ) > /tmp/seed/$NAME.with.log 2>&1; RC_WITH=$?
git diff > /tmp/seed/$NAME.wt.diff; git apply -R /tmp/seed/$NAME.wt.diff
( eval "$DEMO_CMD" ) > /tmp/seed/$NAME.without.log 2>&1; RC_WITHOUT=$?
git apply /tmp/seed/$NAME.wt.diff
mv tests/seed_demo.rs /tmp/seed/$NAME.seed_demo.rs.tmp
cargo test --workspace --no-fail-fast --offline > /tmp/seed/$NAME.suite.log 2>&1; RC_SUITE=$?
mv /tmp/seed/$NAME.seed_demo.rs.tmp tests/seed_demo.rs
PASSED=$(grep -E "^test result" /tmp/seed/$NAME.suite.log | awk '{s+=$4} END{print s}')
echo "demo with change: rc=$RC_WITH (must be != 0); without: rc=$RC_WITHOUT (must be 0); suite with change: rc=$RC_SUITE passed=$PASSED"
cp SEED/patch.diff SEED/meta.json "$OUT"/
cp SEED/seed_demo.rs "$OUT"/ 2>/dev/null || cp tests/seed_demo.rs "$OUT"/
echo "$RC_WITH $RC_WITHOUT $RC_SUITE $PASSED" > "$OUT/.demo_result"
fi
if [ "$PHASE" = "demo" ]; then exit 0; fi
read RC_WITH RC_WITHOUT RC_SUITE PASSED < "$OUT/.demo_result"; rm -f "$OUT/.demo_result"
cd /repo || exit 2
if [ -n "$(git status --porcelain --untracked-files=no)" ]; then echo "repo not clean"; exit 2; fi
if ! git apply "$OUT/patch.diff"; then echo "PATCH DOES NOT APPLY"; exit 3; fi
RES=""
for ID in "$@"; do
  /verif/bin/check "$ID" --tier quick --no-evidence > /tmp/seed/$NAME.$ID.log 2>&1; rc=$?
  SIG=$(grep -E "^violation signatures" /tmp/seed/$NAME.$ID.log | cut -c1-200)
  echo "check $ID: exit=$rc $SIG"
  RES="$RES $ID:exit=$rc"
done
git checkout -- .
python3 - "$OUT/meta.json" "$RC_WITH" "$RC_WITHOUT" "$RC_SUITE" "$PASSED" "$RES" <<'P'
import json,sys
p=sys.argv[1]; m=json.load(open(p))
m['confirmed']={'demo_with_change_rc':int(sys.argv[2]),'demo_without_change_rc':int(sys.argv[3]),'suite_with_change_rc':int(sys.argv[4]),'suite_tests_passed':sys.argv[5],'checks_run':sys.argv[6].strip()}
json.dump(m,open(p,'w'),indent=1)
P
rm -rf /verif/replays/*/ 2>/dev/null
