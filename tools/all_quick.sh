#!/bin/bash
# tools/all_quick.sh [seed...]  - run every quick check on the current tree; print one line per check; non-zero exit if any alarms
cd "$(dirname "$0")/.." || exit 2
SEEDS="${@:-0}"
bad=0
for s in $SEEDS; do
  for p in C01 C02 C03 C04 C05 C06 C07 C08 C09 C10 C11 C12 C13 C14 C15 C16 C17 C18 C19 C20; do
    out=$(VERIF_SEED=$s bin/check $p --no-evidence 2>&1); rc=$?
    line=$(echo "$out" | grep -E "^C[0-9]+ tier" | cut -c1-110)
    if [ $rc -ne 0 ]; then bad=1; echo "seed=$s $p EXIT=$rc"; echo "$out" | grep -E "VIOL|INCONC|^FAIL" | head -3 | cut -c1-200; else echo "seed=$s ok $line"; fi
  done
done
exit $bad
