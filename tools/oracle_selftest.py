#!/usr/bin/env python3
"""Validate the Rust reference oracle (harness/oracle) against Python's
fractions / decimal modules.  Usage: oracle_selftest.py [N] [seed]
Runs `vcheck selftest-dump N seed` and recomputes every line.  Exit 0 = all
lines agree, 2 = disagreement (a harness problem, never a property verdict)."""
import decimal, re, struct, subprocess, sys, os
from fractions import Fraction

ROOT = os.path.dirname(os.path.dirname(os.path.abspath(__file__)))
N = sys.argv[1] if len(sys.argv) > 1 else "3000"
SEED = sys.argv[2] if len(sys.argv) > 2 else "1"
MODES = [decimal.ROUND_05UP, decimal.ROUND_CEILING, decimal.ROUND_DOWN, decimal.ROUND_FLOOR,
         decimal.ROUND_HALF_DOWN, decimal.ROUND_HALF_EVEN, decimal.ROUND_HALF_UP, decimal.ROUND_UP]
ctx = decimal.Context(prec=2000, Emax=decimal.MAX_EMAX, Emin=decimal.MIN_EMIN)
decimal.setcontext(ctx)
LIT = re.compile(r'[+-]?(\d+(\.\d*)?|\.\d+)([eE][+-]?\d+)?', re.ASCII)
MAXC = 2**127 - 1

def round_rational(num, den, mode):
    """round num/den to an integer with decimal.quantize on a proxy that has the same
    sign, integer part and position of the fraction relative to one half"""
    if den < 0:
        num, den = -num, -den
    neg = num < 0
    t, r = divmod(abs(num), den)
    if r == 0:
        frac = ''
    elif 2 * r < den:
        frac = '.3'
    elif 2 * r == den:
        frac = '.5'
    else:
        frac = '.7'
    d = decimal.Decimal(('-' if neg else '') + str(t) + frac)
    return int(d.quantize(decimal.Decimal(1), rounding=MODES[mode]))

LIT2 = re.compile(r'([+-]?)(\d*)(?:\.(\d*))?(?:[eE]([+-]?\d+))?', re.ASCII)

def parse_ref(s):
    if s == '':
        return 'err empty'
    if not LIT.fullmatch(s):
        return 'err other'
    m = LIT2.fullmatch(s)
    sign, ip, fp, ex = m.group(1), m.group(2) or '', m.group(3) or '', m.group(4)
    exp = int(ex) if ex is not None else 0   # Python ints: any length
    coeff = int((ip + fp) or '0')
    e = exp - len(fp)                        # value = coeff * 10^e
    if coeff == 0:
        scale = max(0, -e)
        return f'ok 0 {scale}' if scale <= 18 else 'ambiguous'
    if e < -18:
        return 'err other'
    if e > 0:
        if e > 60:
            return 'err other'
        coeff *= 10 ** e
        e = 0
    if coeff > MAXC:
        return 'err other'
    return f'ok {-coeff if sign == "-" else coeff} {-e}'

def nearest(fr, mant, ebits):
    """bits of the float nearest (ties to even) to the Fraction fr (normal range)"""
    if fr == 0:
        return 0
    neg = fr < 0
    a = abs(fr)
    e = a.numerator.bit_length() - a.denominator.bit_length()
    while Fraction(2) ** e > a:
        e -= 1
    while Fraction(2) ** (e + 1) <= a:
        e += 1
    q = round(a / Fraction(2) ** (e - mant))  # Python rounds Fractions half to even
    if q == 2 ** (mant + 1):
        q //= 2
        e += 1
    bias = 2 ** (ebits - 1) - 1
    return (neg << (mant + ebits)) | ((e + bias) << mant) | (q - 2 ** mant)

def from_float(bits, mant, ebits):
    sign = bits >> (mant + ebits)
    be = (bits >> mant) & (2 ** ebits - 1)
    frac = bits & (2 ** mant - 1)
    bias = 2 ** (ebits - 1) - 1
    if be == 2 ** ebits - 1:
        return 'inf' if frac == 0 else 'nan'
    if be == 0:
        v = Fraction(frac, 2 ** (bias - 1 + mant))
    else:
        v = Fraction(frac + 2 ** mant) * Fraction(2) ** (be - bias - mant)
    if sign:
        v = -v
    k = round(v * 10 ** 18)  # half to even
    s = 18
    if k == 0:
        return 'ok 0 0'
    while s > 0 and k % 10 == 0:
        k //= 10
        s -= 1
    if k == -2 ** 127:
        return 'edgemin'
    if abs(k) > MAXC:
        return 'overflow'
    return f'ok {k} {s}'

def main():
    exe = os.path.join(ROOT, 'harness/target/release/vcheck')
    out = subprocess.run([exe, 'selftest-dump', N, SEED], capture_output=True, text=True)
    if out.returncode != 0:
        print('INCONCLUSIVE: selftest-dump failed', out.stderr[:500]); sys.exit(2)
    n = 0; bad = 0; kinds = {}
    for line in out.stdout.splitlines():
        f = line.split(' ')
        k = f[0]; kinds[k] = kinds.get(k, 0) + 1; n += 1
        if k == 'R':
            want = round_rational(int(f[1]), int(f[2]), int(f[3])); got = int(f[4])
            if int(f[2]) != 0 and str(f[2]).strip('-').rstrip('0') == '1':
                # power of ten: direct use of decimal.quantize as a second opinion
                kk = len(f[2].strip('-')) - 1
                direct = int(decimal.Decimal(int(f[1])).scaleb(-kk).quantize(decimal.Decimal(1), rounding=MODES[int(f[3])]))
                if f[2].startswith('-'):
                    direct = None
                if direct is not None and direct != got:
                    print('MISMATCH', line, 'decimal.quantize says', direct); bad += 1
            ok = want == got
        elif k == 'P':
            s = '' if f[1] == '-' else bytes.fromhex(f[1]).decode('utf-8', 'replace')
            want = parse_ref(s); got = ' '.join(f[2:])
            ok = want == got
        elif k == 'F':
            c, s, mode, prec = int(f[1]), int(f[2]), int(f[3]), f[4]
            d = decimal.Decimal(c).scaleb(-s)
            p = s if prec == '-' else min(int(prec), 18)
            q = d.quantize(decimal.Decimal(1).scaleb(-p), rounding=MODES[mode])
            want = format(q, 'f')
            if c < 0 and not want.startswith('-'):
                want = '-' + want
            got = f[5]
            ok = want == got
        elif k in ('N64', 'N32'):
            fr = Fraction(int(f[1]), 10 ** int(f[2]))
            mant, eb = (52, 11) if k == 'N64' else (23, 8)
            want = nearest(fr, mant, eb); got = int(f[3], 16)
            ok = want == got
            if k == 'N64' and fr != 0:
                # third opinion: CPython's correctly rounded int/int true division
                direct = struct.unpack('<Q', struct.pack('<d', int(f[1]) / 10 ** int(f[2])))[0]
                if direct != got:
                    print('MISMATCH', line, 'python float says', hex(direct)); bad += 1
        elif k in ('T64', 'T32'):
            mant, eb = (52, 11) if k == 'T64' else (23, 8)
            want = from_float(int(f[1], 16), mant, eb); got = ' '.join(f[2:])
            ok = want == got
        else:
            print('unknown line', line); bad += 1; continue
        if not ok:
            print('MISMATCH', line, 'python says', want); bad += 1
    print(f'oracle self-test: {n} lines {kinds}, {bad} mismatches')
    sys.exit(2 if bad else 0)

main()
