#!/usr/bin/env python3
"""Regenerate the seeded-changes table and notes in DESIGN.md (between the markers)."""
import json, glob, re
def short(t, n):
    t = ' '.join(str(t).split()); return t if len(t) <= n else t[:n-1] + '…'
seeds = []
for d in sorted(glob.glob('/verif/seeded/*')):
    m = json.load(open(d + '/meta.json'))
    seeds.append((d.split('/')[-1], m['property'], m['summary'], m['needs'], m['confirmed']['checks_run'], m.get('note', '')))
rows = "\n".join(f"| {n} | {p} | {short(su,140)} | {short(ne,140)} | {ch.replace(':exit=1',' ✔').replace(':exit=0',' ✘')} |" for n, p, su, ne, ch, no in seeds)
notes = "\n".join(f"* **{n}** — {no}" for n, p, su, ne, ch, no in seeds if no)
block = f"""<!-- SEED-TABLE-BEGIN -->
| seed | property | change | needs | checks run (✔ = VIOLATION reported, ✘ = silent) |
|---|---|---|---|---|
{rows}

Notes (misses, strengthening, remarks):

{notes}
<!-- SEED-TABLE-END -->"""
s = open('/verif/DESIGN.md').read()
if '<!-- SEED-TABLE-BEGIN -->' in s:
    s = re.sub(r'<!-- SEED-TABLE-BEGIN -->.*?<!-- SEED-TABLE-END -->', lambda m: block, s, flags=re.S)
else:
    a = s.index('| seed | change | needs | checks run |')
    b = s.index('Cross-detection that is *expected* to be absent:')
    s = s[:a] + block + "\n\n" + s[b:]
open('/verif/DESIGN.md', 'w').write(s)
print(len(seeds), 'seeds')
