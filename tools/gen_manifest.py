#!/usr/bin/env python3
"""Regenerate /verif/MANIFEST.json from the table below (run from /verif)."""
import json, os
ROOT = os.path.dirname(os.path.dirname(os.path.abspath(__file__)))
props = [json.loads(l) for l in open(os.path.join(ROOT, 'properties.jsonl'))]

# id -> (technique, level text, level note, design ref)
CHECKS = {}
def add(i, technique, text, note, ref):
    CHECKS[i] = (technique, text, note, ref)

EXACT = "property-based testing (proptest, seeded, 16 workers) against an exact big-integer/rational reference oracle with constructive boundary generators; failures shrunk to a replay file"
add("C01", EXACT,
    "Exploration: every generated operand pair (class-based and boundary-directed generators, all 9 integer types, all operand forms) is compared with exact 768-bit integer arithmetic; held on everything generated, not a proof.",
    "Trusts the oracle crate (self-tested against native i128 and Python), rustc, and that the harness builds (overflow-checks on / off) match the dev and release profiles; the cross-profile differential itself is C20.", "5/C01")
add("C02", EXACT,
    "Exploration: products compared with the exact product rounded by a definition-level rounding oracle for all 8 thread-default modes; constructed ties, wide products, overflow boundaries, zero/one operands.",
    "Trusts the oracle crate and rustc; scale of x*y not checked when an operand is zero/one (as stated).", "5/C02")
add("C03", EXACT,
    "Exploration: quotients compared with the exact rational quotient rounded once to 18 digits and normalised, 8 modes; constructed ties, exact wide quotients, quotient*10^18 at +-2^127.",
    "Trusts the oracle crate and rustc; divisor one / zero dividend accepted in either documented representation.", "5/C03")
add("C04", EXACT,
    "Exploration: mul_rounded / div_rounded / quantize for all operand type combinations against a single exact rounding; branch-directed generators for the divisor-scaled path (double-rounding detector); n 19..=255 for the rejection clause.",
    "Trusts the oracle crate and rustc; one open known finding (integer/integer div_rounded accepts n > 18) is excluded by signature.", "5/C04")
add("C05", EXACT + "; exhaustive enumeration of the rounding kernel on a 1.6M grid",
    "Exploration plus an exhaustively enumerated kernel grid (every sign / last digit / remainder class, 8 modes); round/checked_round over the whole i8 range of n.",
    "Trusts the oracle crate (round_exact validated against Python decimal) and rustc.", "5/C05")
add("C16", EXACT + "; shadow classifier proves every branch of the multi-word division was entered",
    "Exploration: the doc-hidden 256-bit helpers are compared with exact division identities (a*b = q*m + r, 0 <= r < m) on branch-directed inputs; label histogram shows all Knuth-D correction branches were reached; API-level wide-path cases for * / mul_rounded div_rounded checked_div.",
    "Trusts the oracle crate and rustc; the shadow classifier is used for labelling only.", "5/C16")

add("C06", "property-based testing (proptest) with grammar-derived, boundary-constructed, near-miss and arbitrary strings against a character-level reference parser; guard-page placement turns out-of-bounds reads into faults",
    "Exploration: from_str / TryFrom<&str|String> / str_to_dec compared with a reference parser with big-integer accumulation on generated strings; inputs are additionally parsed from buffers ending at / starting after a PROT_NONE page so reads outside the string fault (SIGSEGV handler writes the replay), and at all 8 start alignments between digit bytes; digit strings at machine-word boundaries with the radix point at every position.",
    "Trusts the reference parser (oracle crate), mmap/mprotect semantics, rustc; page-granular detection of over-reads in this tier.", "5/C06")
add("C07", "property-based round-trip and differential testing (proptest) against a reference formatter",
    "Exploration: to_string / String::from / Display (format!, write! into fmt::Write and io::Write, Box<dyn Display>) / Debug text under formatting flags and inside derived structs / serde_json compared with a reference string built from std integer digits; parsing it back must give the identical (coefficient, scale).",
    "Trusts the reference formatter, std integer formatting, serde_json, rustc.", "5/C07")
add("C10", EXACT,
    "Exploration: %, %= and checked_rem in all operand forms against the truncated-division identity computed on aligned big integers; stepwise and overflow exits constructed.",
    "Trusts the oracle crate and rustc; overflow signal accepted only where the statement permits it.", "5/C10")
add("C11", "property-based testing (proptest) over 48 macro-stamped static flag sets x runtime width/precision against a rounding + padding reference model that is itself checked against std integer formatting on every case",
    "Exploration: format!(\"{:..w$.p$}\", d) for generated decimals, modes, flags, widths 0..=60 and precisions 0..=40 compared with an exact reference (single rounding by mode definitions, pad_integral model).",
    "Trusts the padding model (validated per case against std), the oracle crate and rustc.", "5/C11")

add("C18", "generated programs: batches of grammar-generated literals compiled through the Dec! macro by rustc and compared (values and accept/reject set) with the runtime parser evaluated by the harness",
    "Exploration over generated programs: P_ok must compile and print from_str's (coefficient, scale) for every accepted literal; P_all must fail exactly on the lines of rejected literals (one proc-macro panic per error line).",
    "Trusts rustc's per-invocation proc-macro error reporting and cargo; one compiler version; a blank after the sign is not part of the token text.", "5/C18")

add("C08", EXACT + "; laws (reflexive, antisymmetric, transitive) checked on generated triples; rkyv round trip and archived comparisons",
    "Exploration: all comparison operators on generated pairs/triples (same value at different scales, adjacent values, alignment overflow, all 9 integer types in both orders) against the sign of the exact difference; rkyv archive/deserialize identity and archived comparisons; reference forms, std::cmp::min/max, sort, Iterator::max/min.",
    "Trusts the oracle crate, rkyv's validation, rustc; the packed ArchivedDecimal impl is exercised by the third harness build and C20's packed builds.", "5/C08")
add("C09", "property-based testing (proptest): all equal-valued representations of each generated value must hash identically (std DefaultHasher) and to the hash of the reduced ratio computed by Euclid on big integers",
    "Exploration: Hash/Eq consistency across 1..19 representations per value, HashSet membership, a recording Hasher (the write_* call sequence must not depend on the representation), element-wise equal slices through hash_slice / Vec keys, as_integer_ratio/numerator/denominator against an independent gcd.",
    "Agreement with the (numerator, denominator) pair is checked under std's DefaultHasher; trusts the oracle crate, rustc.", "5/C09")
add("C12", "property-based testing (proptest) with constructed mid-points between adjacent floats; two independent oracles (std's correctly rounded parser and exact big-integer round-half-even) must both accept",
    "Exploration: f64::from / f32::from compared bit-for-bit with the correctly rounded result on generated decimals incl. exact ties and +-1 decimal ulp around mid-points.",
    "Trusts std's dec2flt (cross-checked per case against the exact oracle), the oracle crate, rustc.", "5/C12")
add("C13", "property-based testing (proptest) over raw float bit patterns with an exact big-integer oracle; all 2^32 f32 patterns enumerated in the thorough tier (stride sample in quick)",
    "Exploration (f32: exhaustive in the thorough tier): Decimal::try_from(f64|f32) against exact sig*2^e*10^18 rounded half-even, normalised, with precise error kinds.",
    "Trusts the oracle crate and rustc.", "5/C13")
add("C14", "property-based testing (proptest) plus exhaustive enumeration of the 8/16-bit From conversions and of try_from over small values x 19 scales",
    "Exploration with exhaustively enumerated sub-spaces: From<int>/TryFrom<u128> and T::try_from(Decimal) for 10 target types against big-integer range/integrality tests, error kinds compared exactly.",
    "Trusts the oracle crate and rustc.", "5/C14")
add("C15", EXACT + "; enumerated power-of-ten boundaries and exhaustive 8/16-bit log10 helpers",
    "Exploration with enumerated sub-spaces: floor/ceil/trunc/fract/abs/neg/magnitude/predicates and the num-traits impls against big-integer definitions; log10 helpers exhaustively for u8/u16 and on every power of ten +-1.",
    "Trusts the oracle crate and rustc.", "5/C15")
add("C17", "differential / metamorphic property-based testing (proptest): every macro-stamped reference and assign form against the by-value form, integer operand against Decimal::from(integer)",
    "Exploration: ~15 operations x 9 integer types x 2 positions x 4-6 forms executed explicitly per case; a label per impl family proves all were executed; &a op &a on one object against two equal objects; stated exception for multiplication by one honoured.",
    "No reference oracle here (C01-C04/C10 give the absolute values); one open known finding (integer/integer div_rounded with n > 18) excluded by signature.", "5/C17")
add("C19", "model-based (stateful) property-based testing: generated lock-step schedules over real OS threads against a per-thread mode model, sequences shrink as one value",
    "Exploration over generated schedules (up to 4 threads x 40 steps): set_default/default/rounding operations executed by real threads in a harness-owned order; every result must match the issuing thread's model mode, new threads start with HalfEven. Each schedule runs in a fresh process; threads may exit (and be replaced) in the middle of a schedule, thread-exit destructors are probed, a final phase lets all threads of the schedule round truly concurrently; one schedule in 16 runs in a generated program built against fpdec with default-features = false.",
    "Sampled interleavings (deterministic lock-step plus an OS-scheduled concurrent phase), not exhaustive; a failure of the concurrent phase may need several replays to show again; trusts the oracle crate.", "5/C19")
add("C20", "differential fuzzing across builds: the same generated cases are evaluated by driver processes compiled under several profiles / feature sets and compared line by line; the reference build is also compared with the exact oracle",
    "Exploration: ~60 public operations per case over the union of the C01-C06/C10 generators; quick = dev, release, release+packed; thorough = all 8 combinations of {opt 0/3} x {checks on/off} x {packed on/off}.",
    "One compiler and target; trusts cargo profiles to control overflow-checks/debug-assertions; trusts the oracle crate.", "5/C20")

def main():
    checks = []
    na = []
    for p in props:
        i = p['id']
        if i in CHECKS:
            t, text, note, ref = CHECKS[i]
            if i in ("C01","C02","C03","C04","C05","C06","C10","C12","C13","C16"):
                t += "; thorough tier adds a coverage-guided libFuzzer/ASan campaign (bin/fuzz) with the same oracle in-target"
            if i in ("C01", "C02", "C03", "C04", "C10"):
                t += "; follow-up cases repeat an operand of the previous case on the same thread (state kept between calls)"
            if i not in ("C18", "C19", "C20"):
                t += "; a quarter of the cases is repeated in a fresh process in which the harness never calls RoundingMode::set_default"
            if i not in ("C18", "C20"):
                t += "; every run is repeated with the same seed by three further harness builds (overflow-checks/debug-assertions off/off, on/off and off/on; the mixed ones against fpdec with feature packed and default-features = false)"
            checks.append({
                "property_id": i,
                "quick_cmd": f"bin/check {i} --tier quick",
                "thorough_cmd": f"bin/check {i} --tier thorough",
                "evidence_file": f"evidence/{i}.json",
                "replay_cmd_template": f"bin/check {i} --replay {{path}}",
                "engine": "vcheck",
                "level_claimed": {"category": "exploration", "text": text, "design_ref": f"DESIGN.md section {ref}"},
                "level_note": note,
                "technique": t,
            })
        else:
            na.append({"property_id": i, "reason": "check not built yet (work in progress; design in DESIGN.md section 5)"})
    m = {
        "version": 1,
        "setup_cmd": "bin/setup",
        "hooks": {
            "guard": "fpdec_verif",
            "enable": "no source hooks are needed: the checks link /repo as a cargo path dependency and use only public (partly doc-hidden) API",
            "baseline_off_cmd": "cd /repo && cargo test --workspace --no-fail-fast --offline",
            "source_commits": [],
            "add_only": True,
        },
        "engines": [
            {"name": "vcheck", "path": "harness/vcheck", "serves_properties": sorted(CHECKS), "kind_free_text": "proptest-driven property checks (one sub-command per property) on top of harness/engine and the independent reference oracle in harness/oracle"},
            {"name": "c20drv", "path": "harness/c20drv", "serves_properties": ["C20"], "kind_free_text": "driver binary built under several cargo profiles / feature sets; evaluates every public operation for the cases vcheck generates"},
        ],
        "checks": checks,
        "not_applicable": na,
        "notes": "bin/check rebuilds the harness against /repo's working tree (cargo path dependency) before every run. exit codes of every check: 0 held, 1 violation (VIOLATION line + replay file under replays/<id>/), 2 inconclusive (build failure, harness/oracle problem, watchdog). Known findings: known_findings.json.",
    }
    json.dump(m, open(os.path.join(ROOT, 'MANIFEST.json'), 'w'), indent=1)
    print("checks:", len(checks), "not_applicable:", len(na))

if __name__ == '__main__':
    main()
