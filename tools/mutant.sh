#!/bin/bash
# tools/mutant.sh <file-in-repo> <perl-substitution> <ID> [extra args]   -- apply a one-line mutant to /repo, run the check, revert.
# Only for sensitivity experiments; always restores /repo (git checkout) afterwards.
set -u
F="$1"; SUB="$2"; ID="$3"; shift 3
cd /repo || exit 2
if [ -n "$(git status --porcelain --untracked-files=no)" ]; then echo "repo not clean"; exit 2; fi
perl -0pi -e "$SUB" "$F"
if [ -z "$(git status --porcelain --untracked-files=no)" ]; then echo "MUTANT DID NOT APPLY"; exit 3; fi
git diff --stat | tail -1
/verif/bin/check "$ID" --no-evidence "$@" | grep -E "^(VIOLATION|INCONCLUSIVE|KNOWN|FAIL|C[0-9]+ tier)" | head -6
rc=${PIPESTATUS[0]}
git checkout -- . 
echo "exit=$rc"
