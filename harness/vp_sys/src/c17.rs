//! C17 - all operand forms of an operator compute the same function.
//!
//! Differential / metamorphic: every reference and compound-assignment form is
//! compared with the by-value form, and the by-value integer form with the
//! same operation on Decimal::from(i).  No reference oracle is involved.

use vcore::common::*;
use vcore::{assign_forms, forms, with_int};
use engine::{catch, Ctx, Prop, Tier};
use fpdec::{CheckedAdd, CheckedDiv, CheckedMul, CheckedRem, CheckedSub, Decimal, DivRounded, MulRounded, Quantize};
use proptest::prelude::*;
use serde::{Deserialize, Serialize};
use std::ops::{Add, AddAssign, Div, DivAssign, Mul, MulAssign, Rem, RemAssign, Sub, SubAssign};

pub const OPS: [&str; 15] = [
    "add", "sub", "mul", "div", "rem", "checked_add", "checked_sub", "checked_mul", "checked_div", "checked_rem", "div_rounded", "quantize", "mul_rounded", "eq", "lt",
];

#[derive(Clone, Debug, Hash, PartialEq, Eq, Serialize, Deserialize)]
pub struct Case {
    /// index into OPS
    pub op: u8,
    pub d: D,
    /// second operand: a Decimal, or an integer on the right / left of d
    pub y: Rhs,
    pub n: u8,
    pub mode: u8,
    /// when set (and y is an integer on the right and op is div_rounded / quantize): integer/integer forms with this dividend
    #[serde(default)]
    pub t: Option<I>,
}

pub struct C17;

macro_rules! rforms {
    ($tr:ident :: $m:ident, $a:expr, $b:expr, $n:expr) => {{
        let a = $a;
        let b = $b;
        let n = $n;
        vec![
            ("a op b", op(|| $tr::$m(a, b, n))),
            ("&a op b", op(|| $tr::$m(&a, b, n))),
            ("a op &b", op(|| $tr::$m(a, &b, n))),
            ("&a op &b", op(|| $tr::$m(&a, &b, n))),
        ]
    }};
}

fn b2o(r: Result<bool, String>) -> Out {
    match r {
        Ok(b) => Out::Val(b as i128, 0),
        Err(p) => Out::Panic(p),
    }
}

/// the named methods called with METHOD SYNTAX on a Decimal receiver (value and reference): an
/// inherent method of the same name would be picked here instead of the trait method that the
/// explicit `Trait::method(a, b)` calls of `forms!` name
macro_rules! method_forms {
    ($op:expr, $a:expr, $b:expr, $n:expr) => {{
        let a: Decimal = $a;
        let b = $b;
        let n: u8 = $n;
        let ar = &a;
        let mut v: Vec<(&'static str, Out)> = Vec::new();
        match $op {
            5 => {
                v.push(("a.checked_add(b)", opt(|| a.checked_add(b))));
                v.push(("(&a).checked_add(&b)", opt(|| ar.checked_add(&b))));
            }
            6 => {
                v.push(("a.checked_sub(b)", opt(|| a.checked_sub(b))));
                v.push(("(&a).checked_sub(&b)", opt(|| ar.checked_sub(&b))));
            }
            7 => {
                v.push(("a.checked_mul(b)", opt(|| a.checked_mul(b))));
                v.push(("(&a).checked_mul(&b)", opt(|| ar.checked_mul(&b))));
            }
            8 => {
                v.push(("a.checked_div(b)", opt(|| a.checked_div(b))));
                v.push(("(&a).checked_div(&b)", opt(|| ar.checked_div(&b))));
            }
            9 => {
                v.push(("a.checked_rem(b)", opt(|| a.checked_rem(b))));
                v.push(("(&a).checked_rem(&b)", opt(|| ar.checked_rem(&b))));
            }
            10 => {
                v.push(("a.div_rounded(b, n)", op(|| a.div_rounded(b, n))));
                v.push(("(&a).div_rounded(&b, n)", op(|| ar.div_rounded(&b, n))));
            }
            11 => {
                v.push(("a.quantize(b)", op(|| a.quantize(b))));
                v.push(("(&a).quantize(&b)", op(|| ar.quantize(&b))));
            }
            _ => {}
        }
        v
    }};
}

/// all forms of operation `op` for operands (a, b) of concrete types
macro_rules! run_op {
    ($op:expr, $a:expr, $b:expr, $n:expr, assign: $assign:tt) => {{
        let mut v: Vec<(&'static str, Out)> = Vec::new();
        match $op {
            0 => {
                v.extend(forms!(Add::add, op, $a, $b));
                run_op!(@assign $assign, v, AddAssign::add_assign, $a, $b);
            }
            1 => {
                v.extend(forms!(Sub::sub, op, $a, $b));
                run_op!(@assign $assign, v, SubAssign::sub_assign, $a, $b);
            }
            2 => {
                v.extend(forms!(Mul::mul, op, $a, $b));
                run_op!(@assign $assign, v, MulAssign::mul_assign, $a, $b);
            }
            3 => {
                v.extend(forms!(Div::div, op, $a, $b));
                run_op!(@assign $assign, v, DivAssign::div_assign, $a, $b);
            }
            4 => {
                v.extend(forms!(Rem::rem, op, $a, $b));
                run_op!(@assign $assign, v, RemAssign::rem_assign, $a, $b);
            }
            5 => v.extend(forms!(CheckedAdd::checked_add, opt, $a, $b)),
            6 => v.extend(forms!(CheckedSub::checked_sub, opt, $a, $b)),
            7 => v.extend(forms!(CheckedMul::checked_mul, opt, $a, $b)),
            8 => v.extend(forms!(CheckedDiv::checked_div, opt, $a, $b)),
            9 => v.extend(forms!(CheckedRem::checked_rem, opt, $a, $b)),
            10 => v.extend(rforms!(DivRounded::div_rounded, $a, $b, $n)),
            11 => v.extend(forms!(Quantize::quantize, op, $a, $b)),
            13 => {
                let (a, b) = ($a, $b);
                v.push(("a == b", b2o(catch(|| a == b))));
                v.push(("!(a != b)", b2o(catch(|| !(a != b)))));
                v.push(("PartialEq::eq(&a,&b)", b2o(catch(|| PartialEq::eq(&a, &b)))));
            }
            14 => {
                let (a, b) = ($a, $b);
                v.push(("a < b", b2o(catch(|| a < b))));
                v.push(("partial_cmp == Less", b2o(catch(|| a.partial_cmp(&b) == Some(std::cmp::Ordering::Less)))));
                v.push(("!(a >= b)", b2o(catch(|| !(a >= b)))));
            }
            _ => {}
        }
        v
    }};
    (@assign yes, $v:ident, $tr:ident :: $m:ident, $a:expr, $b:expr) => {
        $v.extend(assign_forms!($tr::$m, $a, $b));
    };
    (@assign no, $v:ident, $tr:ident :: $m:ident, $a:expr, $b:expr) => {};
}

/// `&a op &a` with both references pointing at the SAME object, next to the same call
/// with a second object of identical content (on the heap, so the addresses differ)
macro_rules! alias_op {
    ($op:expr, $a:expr, $n:expr) => {{
        let a: Decimal = $a;
        let c: Box<Decimal> = Box::new(a);
        let c: &Decimal = &c;
        let n: u8 = $n;
        let r: Option<(Out, Out)> = match $op {
            0 => Some((op(|| Add::add(&a, &a)), op(|| Add::add(&a, c)))),
            1 => Some((op(|| Sub::sub(&a, &a)), op(|| Sub::sub(&a, c)))),
            2 => Some((op(|| Mul::mul(&a, &a)), op(|| Mul::mul(&a, c)))),
            3 => Some((op(|| Div::div(&a, &a)), op(|| Div::div(&a, c)))),
            4 => Some((op(|| Rem::rem(&a, &a)), op(|| Rem::rem(&a, c)))),
            5 => Some((opt(|| CheckedAdd::checked_add(&a, &a)), opt(|| CheckedAdd::checked_add(&a, c)))),
            6 => Some((opt(|| CheckedSub::checked_sub(&a, &a)), opt(|| CheckedSub::checked_sub(&a, c)))),
            7 => Some((opt(|| CheckedMul::checked_mul(&a, &a)), opt(|| CheckedMul::checked_mul(&a, c)))),
            8 => Some((opt(|| CheckedDiv::checked_div(&a, &a)), opt(|| CheckedDiv::checked_div(&a, c)))),
            9 => Some((opt(|| CheckedRem::checked_rem(&a, &a)), opt(|| CheckedRem::checked_rem(&a, c)))),
            10 => Some((op(|| DivRounded::div_rounded(&a, &a, n)), op(|| DivRounded::div_rounded(&a, c, n)))),
            11 => Some((op(|| Quantize::quantize(&a, &a)), op(|| Quantize::quantize(&a, c)))),
            12 => Some((op(|| MulRounded::mul_rounded(&a, &a, n)), op(|| MulRounded::mul_rounded(&a, c, n)))),
            13 => Some((b2o(catch(|| PartialEq::eq(&a, &a))), b2o(catch(|| PartialEq::eq(&a, c))))),
            14 => Some((b2o(catch(|| PartialOrd::lt(&a, &a))), b2o(catch(|| PartialOrd::lt(&a, c))))),
            _ => None,
        };
        r
    }};
}

fn impl_label(op: u8, ty: Option<u8>, left: bool) -> &'static str {
    // a static label per (operation, integer type, position) - 15 * (1 + 9*2) combinations
    static LABELS: std::sync::OnceLock<Vec<&'static str>> = std::sync::OnceLock::new();
    let all = LABELS.get_or_init(|| {
        let mut v: Vec<&'static str> = Vec::new();
        let mut push = |s: String| v.push(Box::leak(s.into_boxed_str()));
        for o in OPS.iter() {
            push(format!("impl:{o}:Decimal,Decimal"));
            for t in INT_NAMES.iter() {
                push(format!("impl:{o}:Decimal,{t}"));
                push(format!("impl:{o}:{t},Decimal"));
            }
        }
        for t in INT_NAMES.iter() {
            push(format!("impl:div_rounded:{t},{t}"));
            push(format!("impl:quantize:{t},{t}"));
        }
        v
    });
    let idx = (op as usize) * 19
        + match ty {
            None => 0,
            Some(t) => 1 + 2 * (t as usize) + left as usize,
        };
    all[idx]
}

fn intint_label(op: u8, ty: u8) -> &'static str {
    let _ = impl_label(0, None, false);
    impl_label_raw(15 * 19 + 2 * ty as usize + (op == 11) as usize)
}

fn impl_label_raw(idx: usize) -> &'static str {
    // second accessor into the same table
    static CACHE: std::sync::OnceLock<Vec<&'static str>> = std::sync::OnceLock::new();
    let all = CACHE.get_or_init(|| {
        let mut v: Vec<&'static str> = Vec::new();
        for oi in 0..15u8 {
            v.push(impl_label(oi, None, false));
            for t in 0..9u8 {
                v.push(impl_label(oi, Some(t), false));
                v.push(impl_label(oi, Some(t), true));
            }
        }
        for t in INT_NAMES.iter() {
            v.push(Box::leak(format!("impl:div_rounded:{t},{t}").into_boxed_str()));
            v.push(Box::leak(format!("impl:quantize:{t},{t}").into_boxed_str()));
        }
        v
    });
    all[idx]
}

impl Prop for C17 {
    type Case = Case;
    fn id(&self) -> &'static str {
        "C17"
    }
    fn rule(&self) -> String {
        "Generated: (operation in {+,-,*,/,%, checked_add/sub/mul/div/rem, div_rounded, quantize, mul_rounded, ==, <}, Decimal d, second operand a Decimal or an integer of any of the 9 types on the left or right, n in 0..=18 (and > 18), thread-default mode). \
         For each case every stamped form of the chosen (operation, type, position) is executed explicitly (a op b, &a op b, a op &b, &a op &b, a op= b, a op= &b; the named methods both as Trait::method(a, b) and with method syntax on a Decimal value and reference) and compared with the by-value form; for Decimal/Decimal operations &a op &a is also executed with both references to the same object and compared with the same call on two equal objects; the by-value integer form is compared with the same operation on Decimal::from(i): same value and same panic/None class (for + and - also the same scale), \
         with the stated exception that Decimal*Decimal short-cuts an operand equal to one. A label per (operation, type, position) records which of the macro-generated impl families were executed; all must be non-zero. \
         Non-trivial: integer operand not in {0, 1} and the Decimal has fractional digits. Distinct: hash of the case."
            .into()
    }
    fn assumptions(&self) -> Vec<String> {
        vec![
            "operands |coefficient| <= 2^127-1; i128 integers |i| <= 2^127-1".into(),
            "differential only: agreement of all forms on a wrong value is not detected here (C01-C04, C10 compare the same forms with the exact oracle)".into(),
            "div_rounded / quantize / mul_rounded results are compared by value and scale except that a zero result may carry any scale".into(),
        ]
    }
    fn cases(&self, tier: Tier) -> u64 {
        match tier {
            Tier::Quick => 1 << 20,
            Tier::Thorough => 1 << 25,
        }
    }
    fn strategy(&self, _tier: Tier) -> BoxedStrategy<Case> {
        let n = prop_oneof![10 => 0u8..=18, 1 => 19u8..=60];
        prop_oneof![
            3 => (0u8..15, arb_d(), arb_d(), n.clone(), 0u8..8).prop_map(|(op, d, y, n, mode)| Case { op, d, y: Rhs::Dec(y), n, mode, t: None }),
            5 => (0u8..15, arb_d(), arb_int_full(), any::<bool>(), n.clone(), 0u8..8).prop_map(|(op, d, i, l, n, mode)| Case { op, d, y: if l { Rhs::IntL(i) } else { Rhs::IntR(i) }, n, mode, t: None }),
            // small, human-scale operands: most operations succeed
            4 => (0u8..15, -100000i128..=100000, 0u8..=6, -300i128..=300, 0u8..9, any::<bool>(), 0u8..=18, 0u8..8).prop_map(|(op, c, s, v, ty, l, n, mode)| {
                let (lo, hi) = int_range(ty);
                let i = I { ty, v: v.clamp(lo, hi) };
                Case { op, d: D::new(c, s), y: if l { Rhs::IntL(i) } else { Rhs::IntR(i) }, n, mode, t: None }
            }),
            // Decimal derived from the integer: same value at some scale, or a neighbour / multiple of it
            4 => (0u8..15, arb_int(), 0u8..=18, -1i128..=1, -3i128..=3, any::<bool>(), 0u8..=18, 0u8..8).prop_map(|(op, i, s, off, mult, l, n, mode)| {
                let m = if mult == 0 { 1 } else { mult };
                let c = i.v.checked_mul(m).and_then(|v| v.checked_mul(10i128.pow(s as u32))).and_then(|v| v.checked_add(off)).filter(|v| *v != i128::MIN);
                let d = match c { Some(c) => D::new(c, s), None => D::new(i.v.clamp(-MAXC, MAXC), 0) };
                Case { op, d, y: if l { Rhs::IntL(i) } else { Rhs::IntR(i) }, n, mode, t: None }
            }),
            // machine-word boundary operands (i64::MIN with -1, 2^32 with 2^32, ...)
            3 => (0u8..15, arb_word_pair(), arb_word_int(), any::<bool>(), 0u8..=18, 0u8..8).prop_map(|(op, (x, _), i, l, n, mode)| {
                Case { op, d: x, y: if l { Rhs::IntL(i) } else { Rhs::IntR(i) }, n, mode, t: None }
            }),
            // integer / integer forms of div_rounded and quantize
            2 => (any::<bool>(), arb_int(), arb_int(), n, 0u8..8, any::<bool>(), -300i128..=300, -300i128..=300).prop_map(|(q, a, b, n, mode, small, sa, sb)| {
                let (lo, hi) = int_range(b.ty);
                let (a, b) = if small { (I { ty: b.ty, v: sa.clamp(lo, hi) }, I { ty: b.ty, v: sb.clamp(lo, hi) }) } else { (I { ty: b.ty, v: a.v.clamp(lo, hi) }, b) };
                Case { op: if q { 11 } else { 10 }, d: D::new(0, 0), y: Rhs::IntR(b), n, mode, t: Some(a) }
            }),
        ]
        .boxed()
    }
    fn mandatory_labels(&self, _tier: Tier) -> Vec<&'static str> {
        let mut v = vec!["value-agree", "signal-agree", "one-exception", "aliased-operands"];
        for (oi, _) in OPS.iter().enumerate() {
            if oi == 12 {
                v.push(impl_label(12, None, false));
                continue;
            }
            v.push(impl_label(oi as u8, None, false));
            for t in 0..9u8 {
                v.push(impl_label(oi as u8, Some(t), false));
                v.push(impl_label(oi as u8, Some(t), true));
            }
        }
        for t in 0..9u8 {
            v.push(intint_label(10, t));
            v.push(intint_label(11, t));
        }
        v
    }
    fn builtin_corpus(&self) -> Vec<Case> {
        vec![
            Case { op: 2, d: D::new(1000, 3), y: Rhs::IntR(I { ty: 8, v: MAXC }), n: 0, mode: 5, t: None },
            Case { op: 7, d: D::new(10, 1), y: Rhs::IntL(I { ty: 8, v: MAXC }), n: 0, mode: 5, t: None },
            Case { op: 10, d: D::new(1, 0), y: Rhs::IntR(I { ty: 5, v: 3 }), n: 30, mode: 5, t: None },
            Case { op: 4, d: D::new(-75, 1), y: Rhs::IntR(I { ty: 1, v: -2 }), n: 0, mode: 5, t: None },
            Case { op: 3, d: D::new(1, 0), y: Rhs::IntL(I { ty: 0, v: 3 }), n: 0, mode: 1, t: None },
        ]
    }

    fn check(&self, case: &Case, ctx: &mut Ctx) {
        let md = set_mode(case.mode);
        ctx.label(mode_label(md));
        let opi = case.op % 15;
        let opname = OPS[opi as usize];
        let dd = case.d.dec();
        let n = case.n;
        // ---- integer / integer forms
        if let (Some(a), Rhs::IntR(b), true) = (case.t, case.y, opi == 10 || opi == 11) {
            let (lo, hi) = int_range(b.ty);
            let a = I { ty: b.ty, v: a.v.clamp(lo, hi) };
            ctx.label(intint_label(opi, b.ty));
            let outs: Vec<(&'static str, Out)> = with_int!(b, bv => {
                let av = {
                    #[allow(unused_assignments)]
                    let mut t = bv;
                    t = a.v.try_into().unwrap_or(bv);
                    t
                };
                if opi == 10 { rforms!(DivRounded::div_rounded, av, bv, n) } else { forms!(Quantize::quantize, op, av, bv) }
            });
            let (ad, bd) = (with_int!(a, av => Decimal::from(av)), with_int!(b, bv => Decimal::from(bv)));
            let dref = if opi == 10 { op(|| ad.div_rounded(bd, n)) } else { op(|| ad.quantize(bd)) };
            let base = outs[0].1.clone();
            if a.v != 0 && b.v != 1 {
                ctx.nontrivial();
            }
            for (form, o) in outs.iter().skip(1) {
                ctx.sub();
                if !o.same(&base) {
                    ctx.fail("C17/form-differs", format!("{case:?} {opname}: form [{form}] gives {o} but [a op b] gives {base}"));
                }
            }
            ctx.sub();
            let same = match (&base, &dref) {
                (Out::Val(x, s), Out::Val(y, t)) => oracle::Big::from_i128(*x).mul(&oracle::Big::pow10(*t as u32)) == oracle::Big::from_i128(*y).mul(&oracle::Big::pow10(*s as u32)),
                (Out::Panic(_), Out::Panic(_)) => true,
                _ => false,
            };
            match base {
                Out::Val(..) => ctx.label("value-agree"),
                _ => ctx.label("signal-agree"),
            }
            if !same {
                if opi == 10 && n > 18 && matches!(base, Out::Val(..)) && matches!(dref, Out::Panic(_)) {
                    ctx.fail("C17/int-by-int-n-gt-18", format!("{case:?} integer.div_rounded(integer, {n}) gives {base} where Decimal::from(i).div_rounded(Decimal::from(j), {n}) panics"));
                } else {
                    ctx.fail("C17/int-vs-decimal-differs", format!("{case:?} {opname}: integer/integer form gives {base}, Decimal/Decimal form gives {dref}"));
                }
            }
            return;
        }
        // ---- run all forms for the concrete operand types
        let (outs, as_dec): (Vec<(&'static str, Out)>, Vec<(&'static str, Out)>) = match case.y {
            Rhs::Dec(y) => {
                ctx.label(impl_label(opi, None, false));
                let yd = y.dec();
                let mut v = run_op!(opi, dd, yd, n, assign: yes);
                v.extend(method_forms!(opi, dd, yd, n));
                if opi == 12 {
                    v.extend(rforms!(MulRounded::mul_rounded, dd, yd, n));
                    v.push(("a.mul_rounded(b, n)", op(|| dd.mul_rounded(yd, n))));
                    v.push(("(&a).mul_rounded(&b, n)", op(|| (&dd).mul_rounded(&yd, n))));
                }
                // both references to one object: must behave like two equal objects
                if let Some((aliased, distinct)) = alias_op!(opi, dd, n) {
                    ctx.sub();
                    ctx.label("aliased-operands");
                    ctx.note(|| format!("{opname}(&a, &a) with a = {:?}: same object {aliased}, equal objects {distinct}", case.d));
                    if !aliased.same(&distinct) {
                        ctx.fail("C17/aliased-operands-differ", format!("{case:?} {opname}: &a op &a with both references to the same object gives {aliased}, with two equal objects {distinct}"));
                    }
                }
                (v, Vec::new())
            }
            Rhs::IntR(i) => {
                if opi == 12 {
                    return; // mul_rounded exists for Decimal x Decimal only
                }
                ctx.label(impl_label(opi, Some(i.ty), false));
                let v = with_int!(i, iv => {
                    let mut v = run_op!(opi, dd, iv, n, assign: yes);
                    v.extend(method_forms!(opi, dd, iv, n));
                    v
                });
                let id = with_int!(i, iv => Decimal::from(iv));
                (v, run_op!(opi, dd, id, n, assign: no))
            }
            Rhs::IntL(i) => {
                if opi == 12 {
                    return;
                }
                ctx.label(impl_label(opi, Some(i.ty), true));
                let v = with_int!(i, iv => run_op!(opi, iv, dd, n, assign: no));
                let id = with_int!(i, iv => Decimal::from(iv));
                (v, run_op!(opi, id, dd, n, assign: no))
            }
        };
        if outs.is_empty() {
            return;
        }
        if let Rhs::IntL(i) | Rhs::IntR(i) = case.y {
            if i.v != 0 && i.v != 1 && case.d.s > 0 {
                ctx.nontrivial();
            }
        } else if case.d.s > 0 {
            ctx.nontrivial();
        }
        // ---- every form equals the by-value form
        let base = outs[0].1.clone();
        for (form, o) in outs.iter().skip(1) {
            ctx.sub();
            if !o.same(&base) {
                ctx.fail("C17/form-differs", format!("{case:?} {opname}: form [{form}] gives {o} but [a op b] gives {base}"));
            }
        }
        ctx.note(|| format!("{opname} by value: {base}"));
        match base {
            Out::Val(..) => ctx.label("value-agree"),
            _ => ctx.label("signal-agree"),
        }
        // ---- integer operand == Decimal::from(integer) operand
        if let Some((_, dref)) = as_dec.first() {
            ctx.sub();
            ctx.note(|| format!("{opname} with Decimal::from(i): {dref}"));
            let exact_scale = opi <= 1 || opi == 5 || opi == 6; // + - checked_add checked_sub
            let same = match (&base, dref) {
                (Out::Val(a, s), Out::Val(b, t)) => {
                    if exact_scale {
                        a == b && s == t
                    } else {
                        // same value
                        oracle::Big::from_i128(*a).mul(&oracle::Big::pow10(*t as u32)) == oracle::Big::from_i128(*b).mul(&oracle::Big::pow10(*s as u32))
                    }
                }
                (Out::None, Out::None) => true,
                (Out::Panic(_), Out::Panic(_)) => true,
                _ => false,
            };
            if !same {
                // stated exception: only Decimal*Decimal short-cuts an operand equal to one
                let is_mul = opi == 2 || opi == 7;
                let d_is_one = case.d.c == 10i128.pow(case.d.s as u32);
                let dec_form_succeeds = matches!(dref, Out::Val(..));
                let int_form_signals = !matches!(base, Out::Val(..));
                if is_mul && d_is_one && dec_form_succeeds && int_form_signals {
                    ctx.label("one-exception");
                } else if opi == 10 && n > 18 && matches!(base, Out::Val(..)) && matches!(dref, Out::Panic(_)) {
                    ctx.fail("C17/int-n-gt-18", format!("{case:?} div_rounded with n = {n}: integer form gives {base}, Decimal::from(i) form gives {dref}"));
                } else {
                    ctx.fail("C17/int-vs-decimal-differs", format!("{case:?} {opname}: integer form gives {base}, Decimal::from(i) form gives {dref}"));
                }
            }
        }
    }
}
