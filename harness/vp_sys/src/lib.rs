//! vp_sys: part of the fpdec property checks (split into several crates so that they build in parallel).

pub mod c17;
pub mod c19;
pub mod c20;

/// Run the check `id` if it lives in this crate (never returns then).
pub fn dispatch(id: &str, opts: &engine::Opts) {
    match id {
        "C17" => engine::run_prop(c17::C17, opts),
        "C19" => engine::run_prop(c19::C19, opts),
        "C20" => {
            let p = c20::prepare(&opts.root, opts.tier);
            engine::run_prop(p, opts)
        },
        _ => {}
    }
}
