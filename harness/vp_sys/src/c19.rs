//! C19 - the default rounding mode is per thread and starts as HalfEven.
//!
//! The harness owns the schedule: a generated global sequence of steps is
//! executed by real OS threads in lock-step (token passing over channels), so
//! every interleaving is deterministic and shrinks as a plain Vec.

use vcore::arith::*;
use vcore::common::*;
use engine::{catch, Ctx, Prop, Tier};
use fpdec::{CheckedDiv, Decimal, DivRounded, MulRounded, Quantize, Round, RoundingMode};
use oracle::text::{ref_format, Align, Spec};
use oracle::Mode;
use proptest::prelude::*;
use serde::{Deserialize, Serialize};
use std::collections::BTreeMap;
use std::sync::mpsc::{channel, Receiver, Sender};

#[derive(Clone, Debug, Hash, PartialEq, Eq, Serialize, Deserialize)]
pub enum Op {
    Set(u8),
    Get,
    Round { x: D, n: i8 },
    DivRounded { x: D, y: D, n: u8 },
    MulRounded { x: D, y: D, n: u8 },
    Mul { x: D, y: D },
    Div { x: D, y: D },
    Fmt { x: D, prec: u8 },
    CheckedRound { x: D, n: i8 },
    Quantize { x: D, q: D },
    CheckedDiv { x: D, y: D },
    /// an operation that panics (division by zero / unrepresentable result): the
    /// thread must keep working with its own mode afterwards
    Panicking { x: D, kind: u8 },
    /// the thread terminates (and is joined); a later step with the same thread number
    /// starts a new thread, which must begin with RoundHalfEven again
    Exit,
}

#[derive(Clone, Debug, Hash, PartialEq, Eq, Serialize, Deserialize)]
pub struct Step {
    pub thread: u8,
    pub op: Op,
}

#[derive(Clone, Debug, Hash, PartialEq, Eq, Serialize, Deserialize)]
pub struct Case {
    pub steps: Vec<Step>,
    /// true: the schedule runs in a program built against fpdec with `default-features = false`
    #[serde(default)]
    pub no_default_features: bool,
}

pub struct C19;

fn mode_index(m: RoundingMode) -> u8 {
    match m {
        RoundingMode::Round05Up => 0,
        RoundingMode::RoundCeiling => 1,
        RoundingMode::RoundDown => 2,
        RoundingMode::RoundFloor => 3,
        RoundingMode::RoundHalfDown => 4,
        RoundingMode::RoundHalfEven => 5,
        RoundingMode::RoundHalfUp => 6,
        RoundingMode::RoundUp => 7,
    }
}

/// operands whose results differ between modes: ties and near-ties of both signs
fn tie_d() -> BoxedStrategy<D> {
    (prop_oneof![Just(25i128), Just(35), Just(15), Just(5), Just(21), Just(29), Just(20), Just(105), Just(1005), Just(55), Just(1)], any::<bool>(), 1u8..=3)
        .prop_map(|(c, neg, s)| D::new(if neg { -c } else { c }, s))
        .boxed()
}

fn arb_op() -> BoxedStrategy<Op> {
    prop_oneof![
        4 => (0u8..8).prop_map(Op::Set),
        2 => Just(Op::Get),
        4 => (tie_d(), -1i8..=2).prop_map(|(x, n)| Op::Round { x, n }),
        3 => (tie_d(), prop_oneof![Just(D::new(2, 0)), Just(D::new(-2, 0)), Just(D::new(4, 0)), Just(D::new(8, 1)), Just(D::new(3, 0))], 0u8..=3).prop_map(|(x, y, n)| Op::DivRounded { x, y, n }),
        2 => (tie_d(), prop_oneof![Just(D::new(5, 1)), Just(D::new(-5, 1)), Just(D::new(15, 1)), Just(D::new(25, 2))], 0u8..=3).prop_map(|(x, y, n)| Op::MulRounded { x, y, n }),
        // p + q > 18: * rounds to 18 digits
        2 => (prop_oneof![Just(15i128), Just(25), Just(-25), Just(5), Just(-35), Just(1)], prop_oneof![Just(5i128), Just(-5), Just(15), Just(3)]).prop_map(|(a, b)| Op::Mul { x: D::new(a, 10), y: D::new(b, 9) }),
        // quotient with a tie at the 19th digit: odd / (2 * 10^18)
        2 => (prop_oneof![Just(1i128), Just(3), Just(-1), Just(-3), Just(5), Just(7)], any::<bool>()).prop_map(|(a, third)| {
            if third { Op::Div { x: D::new(a, 0), y: D::new(3, 0) } } else { Op::Div { x: D::new(a, 0), y: D::new(2_000_000_000_000_000_000, 0) } }
        }),
        3 => (tie_d(), 0u8..=2).prop_map(|(x, prec)| Op::Fmt { x, prec }),
        1 => (tie_d(), -1i8..=2).prop_map(|(x, n)| Op::CheckedRound { x, n }),
        2 => (tie_d(), 0u8..4).prop_map(|(x, kind)| Op::Panicking { x, kind }),
        2 => Just(Op::Exit),
        2 => (tie_d(), prop_oneof![Just(D::new(5, 1)), Just(D::new(1, 0)), Just(D::new(-2, 0)), Just(D::new(25, 2)), Just(D::new(10, 0))]).prop_map(|(x, q)| Op::Quantize { x, q }),
        1 => (prop_oneof![Just(1i128), Just(3), Just(-1), Just(-3), Just(5), Just(7)], any::<bool>()).prop_map(|(a, third)| {
            if third { Op::CheckedDiv { x: D::new(a, 0), y: D::new(3, 0) } } else { Op::CheckedDiv { x: D::new(a, 0), y: D::new(2_000_000_000_000_000_000, 0) } }
        }),
    ]
    .boxed()
}

enum Cmd {
    Run(Op),
    /// wait at the barrier, then repeat `burst_ops()` that many times
    Burst(std::sync::Arc<std::sync::Barrier>, u32),
    Quit,
}

/// Thread-local guard installed at thread start (before the thread touches the
/// rounding mode): its destructor runs while the thread exits and reports which
/// mode and which rounding the exiting thread still sees.
struct ExitProbe {
    tx: Sender<String>,
}

impl Drop for ExitProbe {
    fn drop(&mut self) {
        let m = catch(|| mode_index(RoundingMode::default()));
        let r = vcore::common::op(|| Decimal::new_raw(25, 1).round(0));
        let f = catch(|| format!("{:.0}", Decimal::new_raw(-35, 1)));
        let _ = self.tx.send(format!("exit mode {m:?} round {r} fmt {f:?}"));
    }
}

thread_local! {
    static PROBE: std::cell::RefCell<Option<ExitProbe>> = const { std::cell::RefCell::new(None) };
}

fn exec_op(op: Op) -> String {
    match op {
        Op::Set(m) => {
            RoundingMode::set_default(mode_to_fpdec(Mode::from_index(m)));
            "set".to_string()
        }
        Op::Get => {
            // the path call and the Default trait (by name, and from generic code) must agree
            fn generic_default<T: Default>() -> T {
                T::default()
            }
            let (a, b, c) = (RoundingMode::default(), <RoundingMode as Default>::default(), generic_default::<RoundingMode>());
            if a == b && b == c {
                format!("mode {}", mode_index(a))
            } else {
                format!("mode {} but <RoundingMode as Default>::default() = {:?}, T::default() = {:?}", mode_index(a), b, c)
            }
        }
        Op::Round { x, n } => format!("{}", vcore::common::op(|| x.dec().round(n))),
        Op::DivRounded { x, y, n } => format!("{}", vcore::common::op(|| x.dec().div_rounded(y.dec(), n))),
        Op::MulRounded { x, y, n } => format!("{}", vcore::common::op(|| x.dec().mul_rounded(y.dec(), n))),
        Op::Mul { x, y } => format!("{}", vcore::common::op(|| x.dec() * y.dec())),
        Op::Div { x, y } => format!("{}", vcore::common::op(|| x.dec() / y.dec())),
        Op::Panicking { x, kind } => {
            let big = Decimal::MAX;
            let r = match kind % 4 {
                0 => vcore::common::op(|| x.dec() / Decimal::ZERO),
                1 => vcore::common::op(|| big + big),
                2 => vcore::common::op(|| x.dec().div_rounded(Decimal::ZERO, 2)),
                _ => vcore::common::op(|| big.mul_rounded(big, 0)),
            };
            match r {
                Out::Panic(_) => "panicked".to_string(),
                o => format!("{o}"),
            }
        }
        Op::CheckedRound { x, n } => format!("{}", crate::c19::opt_out(|| x.dec().checked_round(n))),
        Op::Quantize { x, q } => format!("{}", vcore::common::op(|| x.dec().quantize(q.dec()))),
        Op::CheckedDiv { x, y } => format!("{}", crate::c19::opt_out(|| x.dec().checked_div(y.dec()))),
        Op::Fmt { x, prec } => match catch(|| format!("{:.*}", prec as usize, x.dec())) {
            Ok(s) => format!("str {s}"),
            Err(p) => format!("Panic({p})"),
        },
        Op::Exit => "<exit is executed by the driver>".to_string(),
    }
}

fn worker(rx: Receiver<Cmd>, tx: Sender<String>) {
    engine::install_silent_panic_hook();
    PROBE.with(|p| *p.borrow_mut() = Some(ExitProbe { tx: tx.clone() }));
    loop {
        let out = match rx.recv() {
            Ok(Cmd::Run(op)) => exec_op(op),
            Ok(Cmd::Burst(barrier, iters)) => {
                // all live threads run the same mode-sensitive operations at the same time,
                // each under its own mode; report the distinct outputs seen per operation
                let ops = burst_ops();
                let own = RoundingMode::default();
                let mut seen: Vec<std::collections::BTreeSet<String>> = vec![Default::default(); ops.len()];
                barrier.wait();
                for k in 0..iters {
                    for (i, o) in ops.iter().enumerate() {
                        seen[i].insert(exec_op(o.clone()).replace(['\n', ';', '|'], " "));
                    }
                    if k % 8 == 0 {
                        // write traffic: re-install the thread's own mode
                        RoundingMode::set_default(own);
                    } else if k % 8 == 4 {
                        // ... and leave it for the initial mode and come back, while the other
                        // threads do the same: transitions between "default" and "custom" racing
                        // with each other must not lose anybody's mode
                        RoundingMode::set_default(RoundingMode::RoundHalfEven);
                        RoundingMode::set_default(own);
                    }
                }
                // toggle storm: all threads switch between the initial mode and their own mode in a
                // tight loop at the same time; right after re-installing its own mode a thread must
                // read it back (the observations join those of the Get operation, index 0)
                barrier.wait();
                for _ in 0..TOGGLE_ITERS {
                    RoundingMode::set_default(RoundingMode::RoundHalfEven);
                    RoundingMode::set_default(own);
                    let got = RoundingMode::default();
                    if got != own {
                        seen[0].insert(format!("mode {}", mode_index(got)));
                        // and what rounding makes of it
                        seen[1].insert(exec_op(ops[1].clone()).replace(['\n', ';', '|'], " "));
                    }
                }
                let parts: Vec<String> = seen.iter().map(|s| s.iter().cloned().collect::<Vec<_>>().join("|")).collect();
                format!("burst {}", parts.join(";"))
            }
            _ => break,
        };
        if tx.send(out).is_err() {
            break;
        }
    }
}

/// `vcheck c19-exec`: execute one schedule (JSON on stdin) in this fresh
/// process with real threads in lock-step; print one result line per step.
pub fn exec_child() {
    engine::install_silent_panic_hook();
    let mut input = String::new();
    std::io::Read::read_to_string(&mut std::io::stdin(), &mut input).expect("read schedule");
    let case: Case = serde_json::from_str(&input).expect("parse schedule");
    let mut chans: BTreeMap<u8, (Sender<Cmd>, Receiver<String>, std::thread::JoinHandle<()>)> = BTreeMap::new();
    let mut out = String::new();
    for st in &case.steps {
        let t = st.thread;
        if !chans.contains_key(&t) {
            let (ctx_tx, ctx_rx) = channel::<Cmd>();
            let (res_tx, res_rx) = channel::<String>();
            let h = std::thread::spawn(move || worker(ctx_rx, res_tx));
            chans.insert(t, (ctx_tx, res_rx, h));
        }
        if st.op == Op::Exit {
            // terminate and join the thread; its thread-local guard reports what it saw while exiting
            let (tx, rx, h) = chans.remove(&t).unwrap();
            let _ = tx.send(Cmd::Quit);
            let _ = h.join();
            let line = rx.try_recv().unwrap_or_else(|_| "exit <no report>".to_string());
            out.push_str(&line.replace('\n', " "));
            out.push('\n');
            continue;
        }
        let (tx, rx, _) = chans.get(&t).unwrap();
        tx.send(Cmd::Run(st.op.clone())).expect("worker alive");
        let got = rx.recv().unwrap_or_else(|_| "worker died".to_string());
        out.push_str(&got.replace('\n', " "));
        out.push('\n');
    }
    // concurrent phase: every thread that exists repeats the burst operations simultaneously
    if chans.len() >= 2 {
        let barrier = std::sync::Arc::new(std::sync::Barrier::new(chans.len()));
        for (tx, _, _) in chans.values() {
            let _ = tx.send(Cmd::Burst(barrier.clone(), BURST_ITERS));
        }
        for (t, (_, rx, _)) in chans.iter() {
            let line = rx.recv().unwrap_or_else(|_| "burst <worker died>".to_string());
            out.push_str(&format!("thread {t} {line}\n"));
        }
    }
    for (t, (tx, rx, h)) in chans {
        let _ = tx.send(Cmd::Quit);
        let _ = h.join();
        // the exit probe's report (sent from a thread-local destructor)
        let line = rx.try_recv().unwrap_or_else(|_| "exit <no report>".to_string());
        out.push_str(&format!("thread {t} {line}\n"));
    }
    print!("{out}");
}

fn run_in_fresh_process(case: &Case) -> Vec<String> {
    use std::io::Write;
    use std::process::{Command, Stdio};
    let exe = std::env::current_exe().expect("current exe");
    let mut child = Command::new(exe).arg("c19-exec").stdin(Stdio::piped()).stdout(Stdio::piped()).stderr(Stdio::null()).spawn().expect("spawn c19-exec");
    child.stdin.take().unwrap().write_all(serde_json::to_string(case).unwrap().as_bytes()).expect("write schedule");
    let out = child.wait_with_output().expect("wait c19-exec");
    String::from_utf8_lossy(&out.stdout).lines().map(|l| l.to_string()).collect()
}

pub fn opt_out(f: impl FnOnce() -> Option<Decimal>) -> Out {
    vcore::common::opt(f)
}

fn out_matches_any(got: &str, exps: &[Exp], checked: bool) -> bool {
    exps.iter().any(|e| out_matches_c(got, e, checked))
}

fn out_matches(got: &str, exp: &Exp) -> bool {
    out_matches_c(got, exp, false)
}

fn out_matches_c(got: &str, exp: &Exp, checked: bool) -> bool {
    // parse "Value(c @s)" / "Panic(..)"
    let out = if let Some(r) = got.strip_prefix("Value(") {
        let r = r.trim_end_matches(')');
        let mut it = r.split(" @");
        let c: i128 = it.next().unwrap().parse().unwrap();
        let s: u8 = it.next().unwrap().parse().unwrap();
        Out::Val(c, s)
    } else if got == "None" {
        Out::None
    } else {
        Out::Panic(got.to_string())
    };
    judge(&out, exp, checked).is_ok()
}

fn op_label(op: &Op) -> &'static str {
    match op {
        Op::Set(_) => "op:set",
        Op::Get => "op:get",
        Op::Round { .. } => "op:round",
        Op::DivRounded { .. } => "op:div_rounded",
        Op::MulRounded { .. } => "op:mul_rounded",
        Op::Mul { .. } => "op:mul",
        Op::Div { .. } => "op:div",
        Op::Fmt { .. } => "op:fmt",
        Op::CheckedRound { .. } => "op:checked_round",
        Op::Quantize { .. } => "op:quantize",
        Op::CheckedDiv { .. } => "op:checked_div",
        Op::Panicking { .. } => "op:panicking",
        Op::Exit => "op:exit",
    }
}

fn fmt_spec(prec: u8) -> Spec {
    Spec { fill: ' ', align: Align::Default, plus: false, zero: false, width: None, precision: Some(prec as usize) }
}

/// the expected outcome of `op` under rounding mode `m`, as text
fn expected_str(op: &Op, m: Mode) -> String {
    match op {
        Op::Set(_) => "set".into(),
        Op::Get => format!("mode {}", m.index()),
        Op::Round { x, n } | Op::CheckedRound { x, n } => format!("{}", exp_round((*x).into(), *n, m).0),
        Op::DivRounded { x, y, n } => format!("{}", exp_div_rounded((*x).into(), (*y).into(), *n, m).0),
        Op::MulRounded { x, y, n } => format!("{}", exp_mul_rounded((*x).into(), (*y).into(), *n, m).0),
        Op::Mul { x, y } => format!("{}", exp_mul((*x).into(), (*y).into(), m).0),
        Op::Div { x, y } | Op::CheckedDiv { x, y } => format!("{}", exp_div((*x).into(), (*y).into(), m).0),
        Op::Quantize { x, q } => format!("{}", exp_quantize((*x).into(), (*q).into(), m).0[0]),
        Op::Fmt { x, prec } => format!("str {}", ref_format(x.c, x.s, m, &fmt_spec(*prec))),
        Op::Panicking { .. } => "panicked".into(),
        Op::Exit => exit_line(m),
    }
}

/// what a thread with mode `m` reports while it exits
fn exit_line(m: Mode) -> String {
    let (e, _) = exp_round(Q { c: 25, s: 1 }, 0, m);
    format!(
        "exit mode Ok({}) round {} fmt Ok({:?})",
        m.index(),
        match &e {
            Exp::Value { num, .. } => format!("Value({num} @0)"),
            o => format!("{o}"),
        },
        ref_format(-35, 1, m, &fmt_spec(0))
    )
}

/// does the observed output `got` of `op` agree with the exact result under mode `md`?
fn verdict(op: &Op, got: &str, md: Mode) -> (bool, String) {
    let want = expected_str(op, md);
    let ok = match op {
        Op::Set(_) | Op::Get | Op::Fmt { .. } | Op::Panicking { .. } | Op::Exit => got == want,
        Op::Round { x, n } => out_matches(got, &exp_round((*x).into(), *n, md).0),
        Op::CheckedRound { x, n } => out_matches_c(got, &exp_round((*x).into(), *n, md).0, true),
        Op::DivRounded { x, y, n } => out_matches(got, &exp_div_rounded((*x).into(), (*y).into(), *n, md).0),
        Op::MulRounded { x, y, n } => out_matches(got, &exp_mul_rounded((*x).into(), (*y).into(), *n, md).0),
        Op::Mul { x, y } => out_matches(got, &exp_mul((*x).into(), (*y).into(), md).0),
        Op::Div { x, y } => out_matches(got, &exp_div((*x).into(), (*y).into(), md).0),
        Op::CheckedDiv { x, y } => out_matches_c(got, &exp_div((*x).into(), (*y).into(), md).0, true),
        Op::Quantize { x, q } => out_matches_any(got, &exp_quantize((*x).into(), (*q).into(), md).0, false),
    };
    (ok, want)
}

/// operations every live thread repeats simultaneously in the concurrent burst
fn burst_ops() -> Vec<Op> {
    vec![
        Op::Get,
        Op::Round { x: D::new(25, 1), n: 0 },
        Op::Round { x: D::new(-35, 1), n: 0 },
        Op::DivRounded { x: D::new(5, 0), y: D::new(2, 0), n: 0 },
        Op::MulRounded { x: D::new(15, 1), y: D::new(5, 1), n: 1 },
        Op::Div { x: D::new(1, 0), y: D::new(3, 0) },
        Op::Mul { x: D::new(15, 10), y: D::new(5, 9) },
        Op::Fmt { x: D::new(-25, 1), prec: 0 },
    ]
}

const BURST_ITERS: u32 = 200;
const TOGGLE_ITERS: u32 = 4000;

impl Prop for C19 {
    type Case = Case;
    fn id(&self) -> &'static str {
        "C19"
    }
    fn fresh_thread_cases(&self) -> bool {
        false // every case talks to processes of its own
    }
    fn pristine_run(&self) -> bool {
        false // every schedule / driver line owns its process and mode already
    }
    fn max_shrink_iters(&self) -> u32 {
        600 // every shrink step starts a process
    }
    fn replay_repeats(&self) -> u32 {
        300 // the concurrent phase is scheduled by the operating system
    }
    fn rule(&self) -> String {
        "Generated schedules: up to 4 logical threads and a global sequence of up to 40 steps (thread, op) with op in {set_default(mode), default(), thread exit (joined; the same thread number then names a NEW thread), round, checked_round, div_rounded, mul_rounded, quantize, * with p+q > 18, /, checked_div, Display with precision, and operations that panic (division by zero, unrepresentable result) after which the thread must keep working}; in addition every thread carries a thread-local guard installed at thread start whose destructor reports default() / round / Display as seen while the thread exits; threads are real OS threads started lazily at their first step (so they start after others changed their mode) and driven in lock-step by the harness; every schedule is executed in a fresh child process (vcheck c19-exec), so no process-wide state survives from one schedule to the next; after the lock-step steps all threads of the schedule (if at least two) are released from a barrier and repeat 8 mode-sensitive operations 200 times truly concurrently, each under the mode its model says (re-installing it, and switching to RoundHalfEven and back, every few iterations), followed by a tight loop of 4000 switches RoundHalfEven -> own mode per thread, all threads at once, each reading its mode back immediately, and report every distinct output they saw - all must be the exact result under the thread's own mode. \
         Operands are exact ties / near ties so the 8 modes give different answers. Oracle: model map thread -> mode (RoundHalfEven at thread start); every result must equal the exact result under the issuing thread's model mode; default() must return it. \
         Non-trivial: a set_default on one thread is followed by a rounding step on another thread whose model mode differs. Distinct: hash of the schedule."
            .into()
    }
    fn assumptions(&self) -> Vec<String> {
        vec![
            "the quantifier 'all interleavings' is sampled by generated lock-step schedules; timing-dependent data races on weakly ordered hardware are out of reach, sharing of the mode between threads is not".into(),
            "feature std (thread-local default) as built by default".into(),
        ]
    }
    fn cases(&self, tier: Tier) -> u64 {
        match tier {
            Tier::Quick => 1 << 13,
            Tier::Thorough => 1 << 19,
        }
    }

    fn strategy(&self, _tier: Tier) -> BoxedStrategy<Case> {
        (1u8..=4)
            .prop_flat_map(|k| proptest::collection::vec((0u8..k, arb_op()), 1..=40))
            .prop_map(|v| Case { steps: v.into_iter().map(|(thread, op)| Step { thread, op }).collect(), no_default_features: false })
            .prop_flat_map(|c| (Just(c), proptest::bool::weighted(1.0 / 16.0)))
            .prop_map(|(mut c, p)| {
                c.no_default_features = p;
                c
            })
            .boxed()
    }
    fn extra_coverage(&self, _tier: Tier) -> std::collections::BTreeMap<String, serde_json::Value> {
        let mut m = std::collections::BTreeMap::new();
        let r = match PROBE_BUILD.get() {
            Some(ProbeBuild::Built(_)) => "program built against fpdec with default-features = false; schedules labelled config:no-default-features ran in it",
            Some(ProbeBuild::NoSetDefault) => "fpdec with default-features = false has no RoundingMode::set_default: nothing to check there",
            None => "not reached",
        };
        m.insert("no_default_features_program".into(), serde_json::Value::String(r.into()));
        m
    }
    fn mandatory_labels(&self, _tier: Tier) -> Vec<&'static str> {
        vec!["cross-thread", "late-start", "get-after-set", "op:round", "op:div_rounded", "op:mul_rounded", "op:mul", "op:div", "op:fmt", "op:quantize", "op:checked_div", "op:checked_round", "op:panicking", "exit-probe", "exit-probe:custom-mode", "threads=1", "threads>=3", "mode-sensitive", "config:no-default-features", "concurrent-burst", "concurrent-burst:modes-differ", "op:exit", "op:exit:custom-mode", "op:exit:custom-mode-while-others-custom", "rounding-after-another-thread-exited"]
    }
    fn builtin_corpus(&self) -> Vec<Case> {
        let s = |t: u8, op: Op| Step { thread: t, op };
        vec![
            Case { steps: vec![s(0, Op::Get)], no_default_features: false },
            Case { steps: vec![s(0, Op::Set(7)), s(1, Op::Get), s(1, Op::Round { x: D::new(25, 1), n: 0 }), s(1, Op::Set(2)), s(1, Op::Round { x: D::new(29, 1), n: 0 }), s(0, Op::Get), s(0, Op::Round { x: D::new(21, 1), n: 0 })], no_default_features: true },
            Case { steps: vec![s(0, Op::Set(7)), s(1, Op::Get), s(1, Op::Round { x: D::new(25, 1), n: 0 }), s(0, Op::Round { x: D::new(25, 1), n: 0 })], no_default_features: false },
            Case { steps: vec![s(0, Op::Set(2)), s(0, Op::Get), s(1, Op::Set(6)), s(0, Op::Round { x: D::new(35, 1), n: 0 }), s(1, Op::Round { x: D::new(35, 1), n: 0 }), s(2, Op::Round { x: D::new(25, 1), n: 0 })], no_default_features: false },
            Case { steps: vec![s(1, Op::Set(1)), s(0, Op::Fmt { x: D::new(-25, 1), prec: 0 }), s(1, Op::Fmt { x: D::new(-25, 1), prec: 0 }), s(0, Op::Div { x: D::new(1, 0), y: D::new(3, 0) }), s(1, Op::Div { x: D::new(1, 0), y: D::new(3, 0) })], no_default_features: false },
        ]
    }

    fn check(&self, case: &Case, ctx: &mut Ctx) {
        // every schedule runs in a fresh process: process-wide state that a
        // defective implementation might keep cannot leak between cases
        let results = if case.no_default_features {
            ctx.label("config:no-default-features");
            match run_in_probe(case) {
                Some(r) => r,
                None => {
                    ctx.label("config:no-default-features:no-set_default");
                    return;
                }
            }
        } else {
            // a child that dies without answering every step is retried: only a death that
            // repeats is attributed to the code under test (not to a transient lack of resources)
            let mut r = run_in_fresh_process(case);
            for _ in 0..2 {
                if r.len() >= case.steps.len() {
                    break;
                }
                r = run_in_fresh_process(case);
            }
            r
        };
        let mut model: BTreeMap<u8, Mode> = BTreeMap::new();
        let mut any_set = false;
        let mut last_set_by: Option<u8> = None;
        let mut exited = false;
        let mut ever: std::collections::BTreeSet<u8> = Default::default();
        for (idx, st) in case.steps.iter().enumerate() {
            let t = st.thread;
            if !model.contains_key(&t) {
                model.insert(t, Mode::HalfEven);
                if any_set {
                    ctx.label("late-start");
                }
            }
            let got = results.get(idx).cloned().unwrap_or_else(|| "<no output: executor died>".to_string());
            ctx.sub();
            let md = model[&t];
            let others_differ = model.iter().any(|(k, v)| *k != t && *v != md);
            match &st.op {
                Op::Set(m) => {
                    any_set = true;
                    last_set_by = Some(t);
                    model.insert(t, Mode::from_index(*m));
                }
                Op::Get => {
                    if last_set_by.is_some() {
                        ctx.label("get-after-set");
                    }
                }
                Op::Exit => {
                    ctx.label("op:exit");
                    if md != Mode::HalfEven {
                        ctx.label("op:exit:custom-mode");
                        if model.iter().any(|(k, v)| *k != t && *v != Mode::HalfEven) {
                            ctx.label("op:exit:custom-mode-while-others-custom");
                        }
                    }
                    exited = true;
                }
                o => {
                    ctx.label(op_label(o));
                    if exited && md != Mode::HalfEven {
                        ctx.label("rounding-after-another-thread-exited");
                    }
                    if !matches!(o, Op::Panicking { .. }) && oracle::MODES.iter().any(|m| expected_str(o, *m) != expected_str(o, md)) {
                        ctx.label("mode-sensitive");
                        if others_differ {
                            ctx.label("cross-thread");
                            ctx.nontrivial();
                        }
                    }
                }
            }
            let (ok, want) = verdict(&st.op, &got, md);
            ever.insert(t);
            if st.op == Op::Exit {
                model.remove(&t);
            }
            ctx.note(|| format!("step {idx} thread {t} {:?}: model mode {}, expected {want}, observed {got}", st.op, md.name()));
            if !ok {
                // would another thread's mode explain the observation?
                let leaked = model.iter().any(|(k, v)| *k != t && *v != md);
                let sig = match &st.op {
                    Op::Get if md == Mode::HalfEven && !model_was_set(&case.steps[..idx], t) => "C19/initial-mode",
                    Op::Exit => "C19/mode-lost-at-thread-exit",
                    _ if case.no_default_features && leaked => "C19/mode-not-per-thread-without-default-features",
                    _ if leaked => "C19/mode-not-per-thread",
                    _ => "C19/wrong-result-under-own-mode",
                };
                let cfg = if case.no_default_features { "[fpdec built with default-features = false] " } else { "" };
                ctx.fail(sig, format!("{cfg}step {idx} of {:?}: thread {t} (model mode {}) {:?}: expected {want}, observed {got}", case.steps, md.name(), st.op));
                break;
            }
        }
        // what each thread saw while it was exiting (thread-local destructor)
        if ctx.failures.is_empty() && results.len() >= case.steps.len() {
            for line in &results[case.steps.len()..] {
                // "thread <t> exit mode Ok(<m>) round Value(c @s) fmt Ok(\"..\")"
                let f: Vec<&str> = line.split(' ').collect();
                let t: u8 = f.get(1).and_then(|v| v.parse().ok()).unwrap_or(255);
                let md = match model.get(&t) {
                    Some(m) => *m,
                    None => continue,
                };
                if f.get(2) == Some(&"burst") {
                    // "thread <t> burst <outputs of op 0 joined by |>;<op 1>;..."
                    let body = line.splitn(4, ' ').nth(3).unwrap_or("");
                    let ops = burst_ops();
                    let parts: Vec<&str> = body.split(';').collect();
                    ctx.label("concurrent-burst");
                    if model.values().any(|m| *m != md) {
                        ctx.label("concurrent-burst:modes-differ");
                    }
                    if parts.len() != ops.len() {
                        ctx.fail("C19/wrong-result-in-concurrent-phase", format!("schedule {:?}: thread {t} reported [{line}] for the concurrent phase", case.steps));
                        continue;
                    }
                    for (o, seen) in ops.iter().zip(parts) {
                        for got in seen.split('|') {
                            ctx.sub();
                            let (ok, want) = verdict(o, got, md);
                            if !ok {
                                let leaked = model.iter().any(|(k, v)| *k != t && *v != md && verdict(o, got, *v).0);
                                ctx.fail(
                                    if leaked { "C19/mode-not-per-thread-under-concurrency" } else { "C19/wrong-result-in-concurrent-phase" },
                                    format!("schedule {:?}, then all {} threads repeat {:?} {BURST_ITERS} times simultaneously: thread {t} (model mode {}) observed {got}, expected {want}", case.steps, model.len(), o, md.name()),
                                );
                            }
                        }
                    }
                    ctx.note(|| format!("concurrent phase, thread {t} (model mode {}): {body}", md.name()));
                    continue;
                }
                ctx.sub();
                ctx.label("exit-probe");
                let (e, _) = exp_round(Q { c: 25, s: 1 }, 0, md);
                let spec = Spec { fill: ' ', align: Align::Default, plus: false, zero: false, width: None, precision: Some(0) };
                let want = format!("thread {t} exit mode Ok({}) round {} fmt Ok({:?})", md.index(), match &e { Exp::Value { num, .. } => format!("Value({num} @0)"), o => format!("{o}") }, ref_format(-35, 1, md, &spec));
                ctx.note(|| format!("at exit of thread {t} (model mode {}): expected [{want}], observed [{line}]", md.name()));
                if md != Mode::HalfEven {
                    ctx.label("exit-probe:custom-mode");
                }
                if *line != want {
                    ctx.fail("C19/mode-lost-at-thread-exit", format!("schedule {:?}: while exiting, thread {t} (model mode {}) reported [{line}], expected [{want}]", case.steps, md.name()));
                }
            }
        }
        match ever.len() {
            1 => ctx.label("threads=1"),
            2 => ctx.label("threads=2"),
            _ => ctx.label("threads>=3"),
        }
        let _: Option<Decimal> = None;
    }
}

fn model_was_set(steps: &[Step], t: u8) -> bool {
    steps.iter().any(|s| s.thread == t && matches!(s.op, Op::Set(_)))
}

// ---------------------------------------------------------------------------
// second configuration: the same schedules against fpdec built with
// `default-features = false` (a generated program compiled by cargo, like C18's programs)

const PROBE_MAIN: &str = r#"// generated by /verif (C19): executes one lock-step schedule read from stdin
use fpdec::{CheckedDiv, Decimal, DivRounded, MulRounded, Quantize, Round, RoundingMode};
use std::collections::BTreeMap;
use std::panic::{catch_unwind, AssertUnwindSafe};
use std::sync::mpsc::{channel, Receiver, Sender};

const MODES: [RoundingMode; 8] = [
    RoundingMode::Round05Up,
    RoundingMode::RoundCeiling,
    RoundingMode::RoundDown,
    RoundingMode::RoundFloor,
    RoundingMode::RoundHalfDown,
    RoundingMode::RoundHalfEven,
    RoundingMode::RoundHalfUp,
    RoundingMode::RoundUp,
];

fn val(f: impl FnOnce() -> Decimal) -> String {
    match catch_unwind(AssertUnwindSafe(f)) {
        Ok(d) => format!("Value({} @{})", d.coefficient(), d.n_frac_digits()),
        Err(_) => "Panic(x)".to_string(),
    }
}
fn opt(f: impl FnOnce() -> Option<Decimal>) -> String {
    match catch_unwind(AssertUnwindSafe(f)) {
        Ok(Some(d)) => format!("Value({} @{})", d.coefficient(), d.n_frac_digits()),
        Ok(None) => "None".to_string(),
        Err(_) => "Panic(x)".to_string(),
    }
}

fn exec(f: &[String]) -> String {
    let kind = f[1].as_str();
    let x = Decimal::new_raw(f[2].parse().unwrap(), f[3].parse().unwrap());
    let y = Decimal::new_raw(f[4].parse().unwrap(), f[5].parse().unwrap());
    let n: i64 = f[6].parse().unwrap();
    match kind {
        "set" => {
            RoundingMode::set_default(MODES[n as usize]);
            "set".to_string()
        }
        "get" => format!("mode {}", MODES.iter().position(|m| *m == RoundingMode::default()).unwrap()),
        "round" => val(|| x.round(n as i8)),
        "cround" => opt(|| x.checked_round(n as i8)),
        "divr" => val(|| x.div_rounded(y, n as u8)),
        "mulr" => val(|| x.mul_rounded(y, n as u8)),
        "mul" => val(|| x * y),
        "div" => val(|| x / y),
        "cdiv" => opt(|| x.checked_div(y)),
        "quant" => val(|| x.quantize(y)),
        "fmt" => match catch_unwind(AssertUnwindSafe(|| format!("{:.*}", n as usize, x))) {
            Ok(s) => format!("str {s}"),
            Err(_) => "Panic(x)".to_string(),
        },
        "panic" => {
            let big = Decimal::MAX;
            let r = match n % 4 {
                0 => val(|| x / Decimal::ZERO),
                1 => val(|| big + big),
                2 => val(|| x.div_rounded(Decimal::ZERO, 2)),
                _ => val(|| big.mul_rounded(big, 0)),
            };
            if r.starts_with("Panic") { "panicked".to_string() } else { r }
        }
        _ => "unknown op".to_string(),
    }
}

fn worker(rx: Receiver<Vec<String>>, tx: Sender<String>) {
    while let Ok(f) = rx.recv() {
        if f[1] == "exit" {
            let m = MODES.iter().position(|m| *m == RoundingMode::default()).unwrap();
            let r = val(|| Decimal::new_raw(25, 1).round(0));
            let s = format!("{:.0}", Decimal::new_raw(-35, 1));
            let _ = tx.send(format!("exit mode Ok({m}) round {r} fmt Ok({s:?})"));
            return;
        }
        if tx.send(exec(&f)).is_err() {
            break;
        }
    }
}

fn main() {
    std::panic::set_hook(Box::new(|_| {}));
    let mut input = String::new();
    std::io::Read::read_to_string(&mut std::io::stdin(), &mut input).unwrap();
    let mut chans: BTreeMap<String, (Sender<Vec<String>>, Receiver<String>, std::thread::JoinHandle<()>)> = BTreeMap::new();
    let mut out = String::new();
    for line in input.lines() {
        let f: Vec<String> = line.split(' ').map(|s| s.to_string()).collect();
        if f.len() != 7 {
            continue;
        }
        let t = f[0].clone();
        if !chans.contains_key(&t) {
            let (ctx_tx, ctx_rx) = channel();
            let (res_tx, res_rx) = channel();
            let h = std::thread::spawn(move || worker(ctx_rx, res_tx));
            chans.insert(t.clone(), (ctx_tx, res_rx, h));
        }
        let is_exit = f[1] == "exit";
        let (tx, rx, _) = chans.get(&t).unwrap();
        tx.send(f).unwrap();
        out.push_str(&rx.recv().unwrap_or_else(|_| "worker died".to_string()).replace('\n', " "));
        out.push('\n');
        if is_exit {
            let (_, _, h) = chans.remove(&t).unwrap();
            let _ = h.join();
        }
    }
    print!("{out}");
}
"#;

#[derive(Clone, Debug)]
enum ProbeBuild {
    /// path of the executable
    Built(std::path::PathBuf),
    /// RoundingMode::set_default does not exist in that configuration
    NoSetDefault,
}

static PROBE_BUILD: std::sync::OnceLock<ProbeBuild> = std::sync::OnceLock::new();

fn probe_build() -> ProbeBuild {
    PROBE_BUILD
        .get_or_init(|| {
            use std::process::Command;
            let root = std::path::PathBuf::from(std::env::var("VERIF_ROOT").unwrap_or_else(|_| "/verif".into()));
            let base = root.join("harness/target/c19probe");
            let proj = base.join("proj");
            let inconclusive = |m: String| -> ! {
                println!("INCONCLUSIVE: C19 no-default-features program: {m} (not a verdict about the property)");
                std::process::exit(2)
            };
            if let Err(e) = std::fs::create_dir_all(proj.join("src")) {
                inconclusive(format!("cannot create {}: {e}", proj.display()));
            }
            let manifest = "[package]\nname = \"c19probe\"\nversion = \"0.0.0\"\nedition = \"2021\"\n\n[dependencies]\nfpdec = { path = \"/repo\", default-features = false }\n\n[workspace]\n\n[profile.dev]\ndebug = false\nincremental = false\n";
            let write_if_changed = |p: std::path::PathBuf, c: &str| {
                if std::fs::read_to_string(&p).map(|o| o != c).unwrap_or(true) {
                    std::fs::write(&p, c).unwrap_or_else(|e| inconclusive(format!("cannot write {}: {e}", p.display())));
                }
            };
            write_if_changed(proj.join("Cargo.toml"), manifest);
            write_if_changed(proj.join("src/main.rs"), PROBE_MAIN);
            let _ = std::fs::copy("/repo/Cargo.lock", proj.join("Cargo.lock"));
            let out = Command::new("cargo")
                .args(["build", "--offline", "--quiet"])
                .current_dir(&proj)
                .env("CARGO_TARGET_DIR", base.join("target"))
                .env("CARGO_NET_OFFLINE", "true")
                .env_remove("RUSTFLAGS")
                .output()
                .unwrap_or_else(|e| inconclusive(format!("cannot run cargo: {e}")));
            if !out.status.success() {
                let err = String::from_utf8_lossy(&out.stderr).to_string();
                if err.contains("set_default") && err.contains("E0599") {
                    return ProbeBuild::NoSetDefault;
                }
                inconclusive(format!("does not build:\n{}", err.chars().take(1500).collect::<String>()));
            }
            ProbeBuild::Built(base.join("target/debug/c19probe"))
        })
        .clone()
}

fn probe_line(st: &Step) -> String {
    let z = D::new(0, 0);
    let (k, x, y, n): (&str, D, D, i64) = match &st.op {
        Op::Set(m) => ("set", z, z, *m as i64),
        Op::Get => ("get", z, z, 0),
        Op::Round { x, n } => ("round", *x, z, *n as i64),
        Op::CheckedRound { x, n } => ("cround", *x, z, *n as i64),
        Op::DivRounded { x, y, n } => ("divr", *x, *y, *n as i64),
        Op::MulRounded { x, y, n } => ("mulr", *x, *y, *n as i64),
        Op::Mul { x, y } => ("mul", *x, *y, 0),
        Op::Div { x, y } => ("div", *x, *y, 0),
        Op::CheckedDiv { x, y } => ("cdiv", *x, *y, 0),
        Op::Quantize { x, q } => ("quant", *x, *q, 0),
        Op::Fmt { x, prec } => ("fmt", *x, z, *prec as i64),
        Op::Panicking { x, kind } => ("panic", *x, z, *kind as i64),
        Op::Exit => ("exit", z, z, 0),
    };
    format!("{} {k} {} {} {} {} {n}\n", st.thread, x.c, x.s, y.c, y.s)
}

/// None: set_default does not exist without default features (nothing to check)
fn run_in_probe(case: &Case) -> Option<Vec<String>> {
    use std::io::Write;
    use std::process::{Command, Stdio};
    let exe = match probe_build() {
        ProbeBuild::Built(p) => p,
        ProbeBuild::NoSetDefault => return None,
    };
    let mut child = Command::new(exe).stdin(Stdio::piped()).stdout(Stdio::piped()).stderr(Stdio::null()).spawn().expect("spawn c19probe");
    let text: String = case.steps.iter().map(probe_line).collect();
    child.stdin.take().unwrap().write_all(text.as_bytes()).expect("write schedule");
    let out = child.wait_with_output().expect("wait c19probe");
    Some(String::from_utf8_lossy(&out.stdout).lines().map(|l| l.to_string()).collect())
}
