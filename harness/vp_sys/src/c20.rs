//! C20 - results do not depend on the build profile; overflow is never silent.
//!
//! A small driver crate (harness/c20drv) is built from the same tree under
//! several profiles / feature sets.  Every generated case is sent to all
//! driver processes; their outcome lines must be identical, and the overflow
//! relevant operations of the reference build are also compared with the
//! exact oracle (so "all builds equally wrong" is not a pass).

use vcore::arith::*;
use vcore::common::*;
use vp_arith::{c01, c02, c03, c10};
use vp_arith2::{c04, c05};
use vp_text::c06;
use engine::{Ctx, Prop, Tier};
use oracle::Mode;
use proptest::prelude::*;
use serde::{Deserialize, Serialize};
use std::cell::RefCell;
use std::io::{BufRead, BufReader, Write};
use std::path::{Path, PathBuf};
use std::process::{Child, ChildStdin, ChildStdout, Command, Stdio};

#[derive(Clone, Debug, Hash, PartialEq, Eq, Serialize, Deserialize)]
pub struct Case {
    pub x: D,
    pub y: D,
    #[serde(with = "engine::s128")]
    pub i: i128,
    pub n: i16,
    pub mode: u8,
    pub s: String,
}

#[derive(Clone, Debug)]
pub struct Build {
    pub name: &'static str,
    pub profile: &'static str,
    pub packed: bool,
    /// optional features rkyv + num-traits + serde-as-str
    pub full: bool,
}

pub const ALL_BUILDS: [Build; 18] = [
    // quick tier: the first 6 (every value of every switch, and every pair of overflow-checks x debug-assertions)
    Build { name: "A dev (opt0, overflow-checks, debug-assertions), default features", profile: "c20a", packed: false, full: false },
    Build { name: "B release (opt3, no checks), default features", profile: "c20b", packed: false, full: false },
    Build { name: "B release + packed + rkyv/num-traits/serde-as-str", profile: "c20b", packed: true, full: true },
    Build { name: "E opt3, overflow-checks on, debug-assertions off, all optional features", profile: "c20e", packed: false, full: true },
    Build { name: "F opt3, overflow-checks off, debug-assertions on, default features", profile: "c20f", packed: false, full: false },
    Build { name: "D opt0 without checks + packed", profile: "c20d", packed: true, full: false },
    // thorough tier: the full product {opt 0,3} x {overflow-checks} x {debug-assertions} x {packed}, plus feature variants
    Build { name: "C opt3 + checks, all optional features", profile: "c20c", packed: false, full: true },
    Build { name: "D opt0 without checks, default features", profile: "c20d", packed: false, full: false },
    Build { name: "A dev + packed", profile: "c20a", packed: true, full: false },
    Build { name: "C opt3 + checks + packed + all optional features", profile: "c20c", packed: true, full: true },
    Build { name: "B release + all optional features", profile: "c20b", packed: false, full: true },
    Build { name: "A dev + packed + all optional features", profile: "c20a", packed: true, full: true },
    Build { name: "E opt3, overflow-checks on, debug-assertions off + packed", profile: "c20e", packed: true, full: false },
    Build { name: "F opt3, overflow-checks off, debug-assertions on + packed + all optional features", profile: "c20f", packed: true, full: true },
    Build { name: "G opt0, overflow-checks on, debug-assertions off", profile: "c20g", packed: false, full: false },
    Build { name: "G opt0, overflow-checks on, debug-assertions off + packed + all optional features", profile: "c20g", packed: true, full: true },
    Build { name: "H opt0, overflow-checks off, debug-assertions on, all optional features", profile: "c20h", packed: false, full: true },
    Build { name: "H opt0, overflow-checks off, debug-assertions on + packed", profile: "c20h", packed: true, full: false },
];

pub struct C20 {
    pub builds: Vec<Build>,
    pub exes: Vec<PathBuf>,
}

fn target_dir(root: &Path, b: &Build) -> PathBuf {
    root.join("harness/target/c20").join(format!("{}{}{}", b.profile, if b.packed { "p" } else { "" }, if b.full { "f" } else { "" }))
}

/// Build the driver for every configuration (in parallel); exit 2 on failure.
pub fn prepare(root: &Path, tier: Tier) -> C20 {
    let builds: Vec<Build> = match tier {
        Tier::Quick => ALL_BUILDS[..6].to_vec(),
        Tier::Thorough => ALL_BUILDS.to_vec(),
    };
    let drv = root.join("harness/c20drv");
    let mut hs = Vec::new();
    for b in builds.clone() {
        let drv = drv.clone();
        let td = target_dir(root, &b);
        hs.push(std::thread::spawn(move || {
            let mut cmd = Command::new("cargo");
            cmd.args(["build", "--offline", "--quiet", "--profile", b.profile]).current_dir(&drv).env("CARGO_TARGET_DIR", &td).env("CARGO_NET_OFFLINE", "true").env_remove("RUSTFLAGS");
            let feats: Vec<&str> = [(b.packed, "packed"), (b.full, "full")].iter().filter(|(on, _)| *on).map(|(_, n)| *n).collect();
            if !feats.is_empty() {
                cmd.args(["--features", &feats.join(",")]);
            }
            let out = cmd.output().expect("spawn cargo");
            (b, td, out)
        }));
    }
    let mut exes = Vec::new();
    for h in hs {
        let (b, td, out) = h.join().expect("build thread");
        if !out.status.success() {
            println!("INCONCLUSIVE: building the C20 driver for '{}' failed (not a verdict about the property)\n{}", b.name, String::from_utf8_lossy(&out.stderr).chars().take(3000).collect::<String>());
            std::process::exit(2);
        }
        exes.push(td.join(b.profile).join("c20drv"));
    }
    C20 { builds, exes }
}

struct Drv {
    child: Child,
    stdin: ChildStdin,
    stdout: BufReader<ChildStdout>,
}

thread_local! {
    static DRIVERS: RefCell<Vec<Drv>> = const { RefCell::new(Vec::new()) };
}

impl Drop for Drv {
    fn drop(&mut self) {
        let _ = self.child.kill();
        let _ = self.child.wait();
    }
}

fn hex(s: &str) -> String {
    if s.is_empty() {
        return "00".to_string(); // never empty on the wire; NUL is not a valid literal either way
    }
    s.bytes().map(|b| format!("{b:02x}")).collect()
}

fn parse_out(v: &str) -> Option<Out> {
    let mut it = v.split(' ');
    match it.next()? {
        "V" => Some(Out::Val(it.next()?.parse().ok()?, it.next()?.parse().ok()?)),
        "N" => Some(Out::None),
        "P" => Some(Out::Panic(String::new())),
        _ => None,
    }
}

impl C20 {
    fn ask(&self, line: &str) -> Vec<String> {
        DRIVERS.with(|cell| {
            let mut v = cell.borrow_mut();
            if v.is_empty() {
                for e in &self.exes {
                    let mut child = Command::new(e).stdin(Stdio::piped()).stdout(Stdio::piped()).stderr(Stdio::null()).spawn().expect("spawn driver");
                    let stdin = child.stdin.take().unwrap();
                    let stdout = BufReader::new(child.stdout.take().unwrap());
                    v.push(Drv { child, stdin, stdout });
                }
            }
            for d in v.iter_mut() {
                d.stdin.write_all(line.as_bytes()).expect("write to driver");
                d.stdin.write_all(b"\n").unwrap();
                d.stdin.flush().unwrap();
            }
            let mut outs = Vec::new();
            for d in v.iter_mut() {
                let mut l = String::new();
                let n = d.stdout.read_line(&mut l).expect("read from driver");
                assert!(n > 0, "a C20 driver process died (abort / crash) on: {line}");
                outs.push(l.trim_end().to_string());
            }
            outs
        })
    }
}

impl Prop for C20 {
    type Case = Case;
    fn id(&self) -> &'static str {
        "C20"
    }
    fn fresh_thread_cases(&self) -> bool {
        false // every case talks to processes of its own
    }
    fn pristine_run(&self) -> bool {
        false // every schedule / driver line owns its process and mode already
    }
    fn rule(&self) -> String {
        format!(
            "The driver crate harness/c20drv is built from the current tree under these configurations: {}. Each generated case (two Decimal representations, an integer, n, mode, a string) is evaluated by persistent driver processes of every build for ~340 public operations \
             (+ - * / % and their checked, rounded and compound-assignment forms, every integer-operand form of all 9 integer types on either side, round, quantize, unary ops, all comparison operators, min/max/clamp/sort, hashing, ratio, Display/Debug/format, from_str, serde, float and integer conversions, rkyv, the num-traits methods). \
             Cases come from the union of the C01-C06 and C10 generators (all overflow-boundary, tie and wide-path classes). Oracle: (1) differential - every build prints the identical outcome (value / None / Err kind / panic; panic messages excluded); \
             (2) the reference build's outcomes for + - * / % checked_* mul_rounded div_rounded round checked_round and integer products are compared with the exact oracle. \
             Non-trivial: some operation panics / returns None in the reference build or its exact result lies within 2^8 of +-2^127. Distinct: hash of the case.",
            self.builds.iter().map(|b| b.name).collect::<Vec<_>>().join("; ")
        )
    }
    fn assumptions(&self) -> Vec<String> {
        vec![
            "one compiler (installed stable rustc), one target (x86-64 Linux); no_std build not exercised".into(),
            "panic = unwind in every profile (the drivers observe panics with catch_unwind)".into(),
            "Decimal operands |coefficient| <= 2^127-1, scale <= 18 (new_raw's debug assertion is outside the domain)".into(),
        ]
    }
    fn cases(&self, tier: Tier) -> u64 {
        match tier {
            Tier::Quick => 1 << 16,
            Tier::Thorough => 1 << 20,
        }
    }
    fn strategy(&self, tier: Tier) -> BoxedStrategy<Case> {
        use engine::Prop as _;
        // operands stay inside the documented domain (|coefficient| <= 2^127-1, |i| <= 2^127-1)
        let dom = |d: D| D::new(d.c.clamp(-MAXC, MAXC), d.s);
        let mk = move |x: D, y: D, i: i128, n: i16, mode: u8, s: String| Case { x: dom(x), y: dom(y), i: i.clamp(-MAXC, MAXC), n, mode, s };
        let rhs = |y: Rhs| -> (D, i128) {
            match y {
                Rhs::Dec(d) => (d, d.c % 1000),
                Rhs::IntR(i) | Rhs::IntL(i) => (D::new(i.v, 0), i.v),
            }
        };
        prop_oneof![
            3 => (arb_d(), arb_d(), arb_int(), -40i16..=40, 0u8..8).prop_map(move |(x, y, i, n, m)| mk(x, y, i.v, n, m, format!("{}e-{}", x.c, x.s))),
            3 => (c01::C01.strategy(tier), -20i16..=20, 0u8..8).prop_map(move |(c, n, m)| { let (y, i) = rhs(c.y); mk(c.x, y, i, n, m, String::new()) }),
            3 => (c02::C02.strategy(tier), 0i16..=20).prop_map(move |(c, n)| { let (y, i) = rhs(c.y); mk(c.x, y, i, n, c.mode, String::new()) }),
            3 => (c03::C03.strategy(tier), 0i16..=20).prop_map(move |(c, n)| { let (y, i) = rhs(c.y); mk(c.x, y, i, n, c.mode, String::new()) }),
            3 => c04::C04.strategy(tier).prop_map(move |c| {
                let q = |o: c04::Opnd| match o { c04::Opnd::Dec(d) => d, c04::Opnd::Int(i) => D::new(i.v, 0) };
                let (x, y) = (q(c.x), q(c.y));
                mk(x, y, y.c, c.n as i16, c.mode, String::new())
            }),
            2 => c05::C05.strategy(tier).prop_map(move |c| match c {
                c05::Case::Round { x, n, mode } => mk(x, D::new(3, 1), 2, n as i16, mode, String::new()),
                c05::Case::Kernel { dividend, divisor, mode } => mk(D::new(dividend, 0), D::new(divisor, 0), divisor, 0, mode, String::new()),
            }),
            2 => c10::C10.strategy(tier).prop_map(move |c| { let (y, i) = rhs(c.y); mk(c.x, y, i, 2, 5, String::new()) }),
            2 => (c06::C06.strategy(tier), arb_d(), arb_d()).prop_map(move |(c, x, y)| mk(x, y, 7, 3, 5, c.text())),
        ]
        .boxed()
    }
    fn mandatory_labels(&self, _tier: Tier) -> Vec<&'static str> {
        vec!["panic-in-some-op", "none-in-some-op", "near-boundary", "overflow:add/sub", "overflow:mul-int", "overflow:round", "all-builds-agree"]
    }
    fn builtin_corpus(&self) -> Vec<Case> {
        let c = |x: D, y: D, i: i128, n: i16, mode: u8, s: &str| Case { x, y, i, n, mode, s: s.to_string() };
        vec![
            // D12: silent wrap in optimised builds
            c(D::new(MAXC, 0), D::new(1, 0), 2, -1, 5, "1.5"),
            c(D::new(-MAXC, 0), D::new(2, 0), -2, -3, 5, "1e38"),
            c(D::new(MAXC, 18), D::new(MAXC, 17), MAXC, -38, 7, "500000000000000000000000000000000000000"),
            // D13
            c(D::new(153127065114422308558518573344295695155, 18), D::new(9, 1), 3, 18, 5, ""),
            c(D::new(0, 5), D::new(0, 0), 0, 0, 0, "0e99"),
        ]
    }
    fn extra_coverage(&self, _tier: Tier) -> std::collections::BTreeMap<String, serde_json::Value> {
        let mut m = std::collections::BTreeMap::new();
        m.insert("builds".into(), serde_json::json!(self.builds.iter().map(|b| b.name).collect::<Vec<_>>()));
        m
    }

    fn check(&self, case: &Case, ctx: &mut Ctx) {
        let line = format!("{} {} {} {} {} {} {} {}", case.x.c, case.x.s, case.y.c, case.y.s, case.i, case.n, case.mode, hex(&case.s));
        let outs = self.ask(&line);
        let reference = &outs[0];
        let rf: Vec<(&str, &str)> = reference.split('|').filter(|s| !s.is_empty()).filter_map(|kv| kv.split_once('=')).collect();
        if rf.iter().any(|(_, v)| *v == "P") {
            ctx.label("panic-in-some-op");
            ctx.nontrivial();
        }
        if rf.iter().any(|(_, v)| *v == "N") {
            ctx.label("none-in-some-op");
            ctx.nontrivial();
        }
        // ---- differential
        let mut agree = true;
        let fields: Vec<Vec<(&str, &str)>> = outs.iter().map(|o| o.split('|').filter(|s| !s.is_empty()).filter_map(|kv| kv.split_once('=')).collect()).collect();
        for (k, (name, _)) in rf.iter().enumerate() {
            // the first build in which the operation exists ("X": not available with that feature set)
            // is the base the others are compared with
            let mut base: Option<(usize, &str)> = None;
            for (bi, f) in fields.iter().enumerate() {
                let v = f.get(k).map(|p| p.1).unwrap_or("<missing>");
                if v == "X" {
                    continue;
                }
                match base {
                    None => base = Some((bi, v)),
                    Some((b0, v0)) => {
                        if v != v0 {
                            agree = false;
                            ctx.fail(
                                &format!("C20/build-differs:{name}"),
                                format!("{case:?}: operation '{name}' gives [{v0}] in build '{}' but [{v}] in build '{}'", self.builds[b0].name, self.builds[bi].name),
                            );
                        }
                    }
                }
            }
        }
        if agree {
            ctx.label("all-builds-agree");
        }
        // ---- reference build against the exact oracle
        let md = Mode::from_index(case.mode);
        let (xq, yq): (Q, Q) = (case.x.into(), case.y.into());
        let iq = Q { c: case.i, s: 0 };
        let nu = case.n.clamp(0, 255) as u8;
        let ni = case.n.clamp(-128, 127) as i8;
        let get = |name: &str| rf.iter().find(|(k, _)| *k == name).and_then(|(_, v)| parse_out(v));
        let mut one = |ctx: &mut Ctx, name: &str, exp: Exp, info: &Info, checked: bool, label: Option<&'static str>| {
            ctx.sub();
            if info.near {
                ctx.label("near-boundary");
                ctx.nontrivial();
            }
            if info.overflow {
                if let Some(l) = label {
                    ctx.label(l);
                }
            }
            match get(name) {
                None => ctx.fail("C20/driver-output", format!("{case:?}: no parsable outcome for '{name}' in [{reference}]")),
                Some(out) => {
                    ctx.note(|| format!("{name}: expected {exp}, reference build observed {out}"));
                    if let Err(kind) = judge(&out, &exp, checked) {
                        ctx.fail(&format!("C20/wrong:{name}:{kind}"), format!("{case:?}: '{name}' in build '{}': expected {exp}, observed {out}", self.builds[0].name));
                    }
                }
            }
        };
        let (e, i) = exp_add_sub(xq, yq, false);
        one(ctx, "add", e.clone(), &i, false, Some("overflow:add/sub"));
        one(ctx, "cadd", e.clone(), &i, true, None);
        one(ctx, "add_assign", e, &i, false, None);
        let (e, i) = exp_add_sub(xq, yq, true);
        one(ctx, "sub", e.clone(), &i, false, Some("overflow:add/sub"));
        one(ctx, "csub", e, &i, true, None);
        let (e, i) = exp_mul(xq, yq, md);
        one(ctx, "mul", e, &i, false, None);
        let (e, i) = exp_checked_mul(xq, yq);
        one(ctx, "cmul", e, &i, true, None);
        let (e, i) = exp_div(xq, yq, md);
        one(ctx, "div", e.clone(), &i, false, None);
        one(ctx, "cdiv", e, &i, true, None);
        let (e, i, _) = exp_rem(xq, yq);
        one(ctx, "rem", e.clone(), &i, false, None);
        one(ctx, "crem", e, &i, true, None);
        let (e, i) = exp_mul_rounded(xq, yq, nu, md);
        one(ctx, "mulr", e, &i, false, None);
        let (e, i) = exp_div_rounded(xq, yq, nu, md);
        one(ctx, "divr", e, &i, false, None);
        let (e, i) = exp_round(xq, ni, md);
        one(ctx, "round", e.clone(), &i, false, Some("overflow:round"));
        one(ctx, "cround", e, &i, true, None);
        if case.i.unsigned_abs() <= MAXC as u128 {
            let (e, i) = exp_mul_int(xq, iq);
            one(ctx, "mul_i128", e, &i, false, Some("overflow:mul-int"));
            let (e, i) = exp_add_sub(xq, iq, false);
            one(ctx, "add_i128", e.clone(), &i, false, None);
            one(ctx, "cadd_i128", e, &i, true, None);
            let (e, i) = exp_add_sub(iq, xq, true);
            one(ctx, "i128_sub", e, &i, false, None);
        }
    }
}
