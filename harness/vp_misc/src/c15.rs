//! C15 - floor, ceil, trunc, fract, abs, neg, magnitude, sign predicates, num-traits.

use vcore::common::*;
use engine::{catch, s128, Ctx, Enumeration, Prop, Tier};
use fpdec::{Decimal, ParseDecimalError};
use num_traits::{Num, One, Signed, Zero};
use oracle::Big;
use proptest::prelude::*;
use serde::{Deserialize, Serialize};
use std::str::FromStr;

#[derive(Clone, Debug, Hash, PartialEq, Eq, Serialize, Deserialize)]
pub enum Case {
    Un { x: D, y: D },
    /// doc-hidden log10 helpers: ty 0:u8 1:u16 2:u32 3:u64 4:u128
    Log {
        ty: u8,
        #[serde(with = "s128")]
        v: i128,
    },
    Radix { s: String, radix: u32 },
}

pub struct C15;

fn weighted() -> BoxedStrategy<D> {
    prop_oneof![
        5 => arb_d(),
        2 => (arb_word_coeff(), arb_scale()).prop_map(|(c, s)| D::new(c, s)),
        // negative non-integers and exact negative integers with scale > 0
        2 => (1u8..=18, any::<u64>(), 0u32..=63, any::<bool>()).prop_map(|(s, r, sh, exact)| {
            let k = (r >> sh) as i128;
            let c = if exact { k.checked_mul(10i128.pow(s as u32)).unwrap_or(k) } else { k };
            D::new(-c, s)
        }),
        // power-of-ten boundaries at all scales
        3 => (0u32..=38, -1i128..=1, arb_scale(), any::<bool>()).prop_map(|(k, d, s, neg)| {
            let c = (10i128.pow(k) + d).max(0);
            D::new(if neg { -c } else { c }, s)
        }),
    ]
    .boxed()
}

fn val_eq(a: (i128, u8), b: (&Big, u32)) -> bool {
    Big::from_i128(a.0).mul(&Big::pow10(b.1)) == b.0.mul(&Big::pow10(a.1 as u32))
}

impl Prop for C15 {
    type Case = Case;
    fn id(&self) -> &'static str {
        "C15"
    }
    fn rule(&self) -> String {
        "Generated: Decimal representations weighted to negative non-integers, exact negative integers with scale > 0 and all power-of-ten boundaries 10^k-1, 10^k, 10^k+1 (k = 0..=38) at all scales; a second operand for abs_sub; strings and radices for from_str_radix. \
         Enumerated: all 39 x 3 power-of-ten boundaries at all 19 scales and both signs for magnitude; the doc-hidden u8/u16 log10 helpers exhaustively, u32/u64/u128 on every power of ten +-1 and powers of two. \
         Oracle (big integers): floor/ceil by exact division and the predicate floor <= d < floor+1; trunc + fract == d exactly with fract's sign and scale; -d and abs keep the scale; magnitude = number of decimal digits of |c| - 1 - scale, 0 for any zero; eq_zero/eq_one/is_negative/is_positive from the value; num-traits is_zero, is_one, abs, signum in {-1,0,1}, abs_sub = max(x-y,0) (a panic accepted only if x-y is not representable at max(p,q)), from_str_radix = from_str for radix 10 and Invalid otherwise. \
         Non-trivial: scale > 0 or |coefficient| within 1 of a power of ten. Distinct: hash of the case."
            .into()
    }
    fn assumptions(&self) -> Vec<String> {
        vec!["operands |coefficient| <= 2^127-1".into(), "integral results of floor/ceil/trunc are compared by value (any scale)".into()]
    }
    fn cases(&self, tier: Tier) -> u64 {
        match tier {
            Tier::Quick => 1 << 19,
            Tier::Thorough => 1 << 24,
        }
    }
    fn strategy(&self, _tier: Tier) -> BoxedStrategy<Case> {
        prop_oneof![
            8 => (weighted(), weighted()).prop_map(|(x, y)| Case::Un { x, y }),
            2 => (weighted(), 0u8..=18, -1i128..=1).prop_map(|(x, k, d)| {
                // y close to x for abs_sub
                let y = match x.c.checked_add(d) { Some(c) if c != i128::MIN => D::new(c, x.s), _ => x };
                let _ = k;
                Case::Un { x, y }
            }),
            1 => (0u8..5, 0u32..=38, -1i128..=1, any::<u128>(), 0u32..=128, any::<bool>()).prop_map(|(ty, k, d, r, bits, pw)| {
                let max: u128 = match ty { 0 => u8::MAX as u128, 1 => u16::MAX as u128, 2 => u32::MAX as u128, 3 => u64::MAX as u128, _ => i128::MAX as u128 };
                let v = if pw { (10u128.pow(k) as i128 + d).max(1) as u128 } else if bits == 0 { 1 } else { (r >> (128 - bits.min(128))).max(1) };
                Case::Log { ty, v: v.clamp(1, max) as i128 }
            }),
            // radix 10 must behave exactly like from_str on the whole literal grammar / near misses
            2 => (vp_text::c06::C06.strategy_for_selftest(), prop_oneof![4 => Just(10u32), 1 => Just(16u32), 1 => 0u32..40]).prop_map(|(s, radix)| Case::Radix { s, radix }),
            1 => (prop_oneof![Just("17.5".to_string()), Just("-0.001".to_string()), Just("ff".to_string()), Just("1e3".to_string()), Just("".to_string()), "[0-9a-f.+-]{0,12}"], prop_oneof![Just(10u32), Just(16u32), Just(2u32), Just(36u32), 0u32..40]).prop_map(|(s, radix)| Case::Radix { s, radix }),
        ]
        .boxed()
    }
    fn enumerations(&self, _tier: Tier) -> Vec<Enumeration<Case>> {
        vec![
            Enumeration {
                name: "magnitude etc. on 10^k-1, 10^k, 10^k+1 for k in 0..=38, 19 scales, both signs",
                total: 39 * 3 * 19 * 2,
                produce: Box::new(|i| {
                    let neg = i % 2 == 1;
                    let i = i / 2;
                    let s = (i % 19) as u8;
                    let i = i / 19;
                    let d = (i % 3) as i128 - 1;
                    let k = (i / 3) as u32;
                    let c = 10i128.pow(k) + d;
                    let x = D::new(if neg { -c } else { c }, s);
                    Case::Un { x, y: x }
                }),
            },
            Enumeration {
                name: "log10 helpers: u8 and u16 exhaustively",
                total: 255 + 65535,
                produce: Box::new(|i| if i < 255 { Case::Log { ty: 0, v: i as i128 + 1 } } else { Case::Log { ty: 1, v: (i - 255) as i128 + 1 } }),
            },
            Enumeration {
                name: "log10 helpers u32/u64/u128: powers of ten +-1 and powers of two +-1",
                total: 3 * (39 * 3 + 128 * 3),
                produce: Box::new(|i| {
                    let ty = 2 + (i % 3) as u8;
                    let i = i / 3;
                    let max: u128 = match ty { 2 => u32::MAX as u128, 3 => u64::MAX as u128, _ => i128::MAX as u128 };
                    let v: u128 = if i < 39 * 3 {
                        (10u128.pow((i / 3) as u32) as i128 + (i % 3) as i128 - 1).max(1) as u128
                    } else {
                        let j = i - 39 * 3;
                        ((1u128 << ((j / 3) as u32 % 127)) as i128 + (j % 3) as i128 - 1).max(1) as u128
                    };
                    Case::Log { ty, v: v.clamp(1, max) as i128 }
                }),
            },
        ]
    }
    fn mandatory_labels(&self, _tier: Tier) -> Vec<&'static str> {
        vec!["neg-nonint", "neg-int-scaled", "pow10-boundary", "zero", "one", "abs_sub:positive", "abs_sub:zero", "log", "radix10", "radix-other"]
    }
    fn builtin_corpus(&self) -> Vec<Case> {
        vec![
            Case::Un { x: D::new(0, 5), y: D::new(0, 0) },
            Case::Un { x: D::new(-15, 1), y: D::new(15, 1) },
            Case::Un { x: D::new(-2000, 3), y: D::new(1, 0) },
            Case::Un { x: D::new(MAXC, 18), y: D::new(-MAXC, 18) },
            Case::Un { x: D::new(1000, 3), y: D::new(1, 0) },
            Case::Un { x: D::new(99999, 0), y: D::new(100000, 0) },
            Case::Un { x: D::new(100000, 0), y: D::new(99999, 5) },
            Case::Log { ty: 2, v: 99999 },
            Case::Log { ty: 2, v: 100000 },
            Case::Log { ty: 4, v: 99999999999999999999999999999999 },
            Case::Log { ty: 4, v: 100000000000000000000000000000000 },
            Case::Radix { s: "-17.5".into(), radix: 10 },
            Case::Radix { s: "5.4".into(), radix: 16 },
        ]
    }

    fn check(&self, case: &Case, ctx: &mut Ctx) {
        let _ambient = ambient_mode(case, ctx);
        match case {
            Case::Log { ty, v } => {
                ctx.label("log");
                ctx.sub();
                let v = *v as u128;
                let want = (v.to_string().len() - 1) as u32;
                let got = match ty {
                    0 => catch(|| fpdec_core::u8(v as u8)),
                    1 => catch(|| fpdec_core::u16(v as u16)),
                    2 => catch(|| fpdec_core::u32(v as u32)),
                    3 => catch(|| fpdec_core::u64(v as u64)),
                    _ => catch(|| fpdec_core::u128(v)),
                };
                let pw = v.to_string();
                if pw.trim_end_matches('0') == "1" || pw.chars().all(|c| c == '9') {
                    ctx.nontrivial();
                }
                match got {
                    Ok(g) if g == want => {}
                    Ok(g) => ctx.fail("C15/log10-wrong", format!("log10 helper (type index {ty}) of {v} = {g}; expected {want}")),
                    Err(p) => ctx.fail("C15/panics", format!("log10 helper (type index {ty}) of {v} panicked: {p}")),
                }
            }
            Case::Radix { s, radix } => {
                ctx.sub();
                let got = catch(|| <Decimal as Num>::from_str_radix(s, *radix).map(|d| (d.coefficient(), d.n_frac_digits())));
                let want: Result<(i128, u8), ParseDecimalError> = if *radix == 10 {
                    ctx.label("radix10");
                    Decimal::from_str(s).map(|d| (d.coefficient(), d.n_frac_digits()))
                } else {
                    ctx.label("radix-other");
                    Err(ParseDecimalError::Invalid)
                };
                match got {
                    Ok(g) if g == want => {}
                    Ok(g) => ctx.fail("C15/from_str_radix", format!("from_str_radix({s:?}, {radix}) = {g:?}; expected {want:?}")),
                    Err(p) => ctx.fail("C15/panics", format!("from_str_radix({s:?}, {radix}) panicked: {p}")),
                }
            }
            Case::Un { x, y } => {
                let (x, y) = (*x, *y);
                let d = x.dec();
                let c = x.big();
                let pow = Big::pow10(x.s as u32);
                let (fl, rem_f) = c.divrem_floor(&pow);
                let ce = if rem_f.is_zero() { fl } else { fl.add(&Big::one()) };
                let (tr, fr) = c.divrem_trunc(&pow);
                if x.s > 0 {
                    ctx.nontrivial();
                }
                if x.c < 0 && !rem_f.is_zero() {
                    ctx.label("neg-nonint");
                }
                if x.c < 0 && rem_f.is_zero() && x.s > 0 {
                    ctx.label("neg-int-scaled");
                }
                if x.c == 0 {
                    ctx.label("zero");
                }
                let digits = c.abs_digits();
                if digits.trim_end_matches('0') == "1" || digits.chars().all(|ch| ch == '9') || (digits.starts_with('1') && digits[1..].trim_start_matches('0') == "1") {
                    ctx.label("pow10-boundary");
                    ctx.nontrivial();
                }
                let is_one = x.c == 10i128.pow(x.s as u32);
                if is_one {
                    ctx.label("one");
                }
                let rep = |d: Decimal| (d.coefficient(), d.n_frac_digits());
                let mut chk = |ctx: &mut Ctx, name: &str, sig: &str, r: Result<bool, String>, detail: String| {
                    ctx.sub();
                    match r {
                        Ok(true) => {}
                        Ok(false) => ctx.fail(sig, format!("{x}: {name}: {detail}")),
                        Err(p) => ctx.fail("C15/panics", format!("{x}: {name} panicked: {p}")),
                    }
                };
                // floor / ceil / trunc: integral value (any scale)
                let g = catch(|| rep(d.floor()));
                chk(ctx, "floor", "C15/floor", g.clone().map(|g| val_eq(g, (&fl, 0))), format!("observed {g:?}, expected value {fl}"));
                let g = catch(|| rep(d.ceil()));
                chk(ctx, "ceil", "C15/ceil", g.clone().map(|g| val_eq(g, (&ce, 0))), format!("observed {g:?}, expected value {ce}"));
                let g = catch(|| rep(d.trunc()));
                chk(ctx, "trunc", "C15/trunc", g.clone().map(|g| val_eq(g, (&tr, 0))), format!("observed {g:?}, expected value {tr}"));
                // fract: d's sign and scale, trunc + fract == d
                let g = catch(|| rep(d.fract()));
                chk(
                    ctx,
                    "fract",
                    "C15/fract",
                    g.clone().map(|g| val_eq(g, (&fr, x.s as u32)) && (x.s == 0 || g.1 == x.s || fr.is_zero())),
                    format!("observed {g:?}, expected {fr} @{}", x.s),
                );
                let g = catch(|| rep(d.trunc() + d.fract()));
                chk(ctx, "trunc + fract", "C15/trunc-fract-sum", g.clone().map(|g| val_eq(g, (&c, x.s as u32))), format!("observed {g:?}, expected the value of d"));
                // neg / abs keep the scale
                let g = catch(|| rep(-d));
                chk(ctx, "neg", "C15/neg", g.clone().map(|g| g == (-x.c, x.s)), format!("observed {g:?}, expected ({}, {})", -x.c, x.s));
                let g = catch(|| rep(-&d));
                chk(ctx, "neg(&d)", "C15/neg", g.clone().map(|g| g == (-x.c, x.s)), format!("observed {g:?}, expected ({}, {})", -x.c, x.s));
                let g = catch(|| rep(d.abs()));
                chk(ctx, "abs", "C15/abs", g.clone().map(|g| g == (x.c.abs(), x.s)), format!("observed {g:?}, expected ({}, {})", x.c.abs(), x.s));
                // magnitude
                let want_m: i32 = if x.c == 0 { 0 } else { digits.len() as i32 - 1 - x.s as i32 };
                let g = catch(|| d.magnitude() as i32);
                let msig = if x.c == 0 { "C15/magnitude-of-zero" } else { "C15/magnitude" };
                chk(ctx, "magnitude", msig, g.clone().map(|g| g == want_m), format!("observed {g:?}, expected {want_m}"));
                // predicates
                let g = catch(|| (d.eq_zero(), d.eq_one(), d.is_negative(), d.is_positive()));
                let wantp = (x.c == 0, is_one, x.c < 0, x.c > 0);
                chk(ctx, "(eq_zero, eq_one, is_negative, is_positive)", "C15/predicates", g.clone().map(|g| g == wantp), format!("observed {g:?}, expected {wantp:?}"));
                // num-traits
                let g = catch(|| (Zero::is_zero(&d), One::is_one(&d), Signed::is_negative(&d), Signed::is_positive(&d)));
                chk(ctx, "num-traits (is_zero, is_one, is_negative, is_positive)", "C15/num-traits-predicates", g.clone().map(|g| g == wantp), format!("observed {g:?}, expected {wantp:?}"));
                let g = catch(|| (rep(Decimal::zero()), rep(Decimal::one())));
                chk(ctx, "zero()/one()", "C15/num-traits-consts", g.clone().map(|g| g.0 .0 == 0 && val_eq(g.1, (&Big::one(), 0))), format!("observed {g:?}"));
                let g = catch(|| {
                    let (mut a, mut b) = (d, d);
                    Zero::set_zero(&mut a);
                    One::set_one(&mut b);
                    (rep(a), rep(b), a.eq_zero(), b.eq_one())
                });
                chk(ctx, "set_zero()/set_one()", "C15/num-traits-consts", g.clone().map(|g| g.0 .0 == 0 && val_eq(g.1, (&Big::one(), 0)) && g.2 && g.3), format!("observed {g:?}"));
                let g = catch(|| rep(Signed::abs(&d)));
                chk(ctx, "Signed::abs", "C15/abs", g.clone().map(|g| g == (x.c.abs(), x.s)), format!("observed {g:?}"));
                let g = catch(|| rep(Signed::signum(&d)));
                let sg = Big::from_i128(x.c.signum());
                chk(ctx, "signum", "C15/signum", g.clone().map(|g| val_eq(g, (&sg, 0))), format!("observed {g:?}, expected {sg}"));
                // abs_sub = max(x - y, 0)
                let m = x.s.max(y.s);
                let xa = c.mul(&Big::pow10((m - x.s) as u32));
                let ya = y.big().mul(&Big::pow10((m - y.s) as u32));
                let diff = xa.sub(&ya);
                let yd = y.dec();
                let g = catch(|| rep(Signed::abs_sub(&d, &yd)));
                ctx.sub();
                if diff.signum() <= 0 {
                    ctx.label("abs_sub:zero");
                    match &g {
                        Ok(v) if v.0 == 0 => {}
                        Ok(v) => ctx.fail("C15/abs_sub", format!("{x}.abs_sub({y}) = {v:?}; expected zero")),
                        Err(p) => ctx.fail("C15/abs_sub-panics", format!("{x}.abs_sub({y}) panicked although x <= y: {p}")),
                    }
                } else {
                    ctx.label("abs_sub:positive");
                    let representable = in_i128(&xa) && in_i128(&ya) && diff.fits_coeff();
                    match &g {
                        Ok(v) if val_eq(*v, (&diff, m as u32)) => {}
                        Ok(v) => ctx.fail("C15/abs_sub", format!("{x}.abs_sub({y}) = {v:?}; expected value {diff}e-{m}")),
                        Err(p) => {
                            if representable {
                                ctx.fail("C15/abs_sub-panics", format!("{x}.abs_sub({y}) panicked: {p}; expected value {diff}e-{m}"))
                            }
                        }
                    }
                }
            }
        }
    }
}
