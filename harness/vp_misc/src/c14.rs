//! C14 - integer conversions are exact and total with precise error kinds.

use vcore::common::*;
use engine::{catch, s128, Ctx, Enumeration, Prop, Tier};
use fpdec::{Decimal, DecimalError, TryFromDecimalError};
use oracle::Big;
use proptest::prelude::*;
use serde::{Deserialize, Serialize};

/// target / source integer types: 0:u8 1:i8 2:u16 3:i16 4:u32 5:i32 6:u64 7:i64 8:i128 9:u128
#[derive(Clone, Debug, Hash, PartialEq, Eq, Serialize, Deserialize)]
pub enum Case {
    /// Decimal::from(i) / Decimal::try_from(u128)
    From {
        ty: u8,
        /// value as a decimal string (u128 does not fit i128)
        v: String,
    },
    /// T::try_from(d)
    To { ty: u8, d: D },
    #[doc(hidden)]
    _Unused(#[serde(with = "s128")] i128),
}

pub struct C14;

fn range(ty: u8) -> (Big, Big) {
    match ty {
        9 => (Big::ZERO, Big::from_u128(u128::MAX)),
        8 => (Big::from_i128(i128::MIN), Big::from_i128(i128::MAX)),
        t => {
            let (lo, hi) = int_range(t);
            (Big::from_i128(lo), Big::from_i128(hi))
        }
    }
}

fn arb_value(ty: u8) -> BoxedStrategy<Big> {
    let (lo, hi) = range(ty);
    (0u8..8, any::<u128>(), 0u32..=128, -2i128..=2, any::<bool>())
        .prop_map(move |(k, r, bits, d, neg)| {
            let v = match k {
                0 => lo,
                1 => hi,
                2 => lo.add(&Big::one()),
                3 => hi.sub(&Big::one()),
                4 => Big::from_i128(d),
                5 => Big::pow2(bits.min(127)).add(&Big::from_i128(d)),
                6 => Big::pow10(bits % 39).add(&Big::from_i128(d)),
                _ => Big::from_u128(if bits >= 128 { r } else if bits == 0 { 0 } else { r >> (128 - bits) }),
            };
            let v = if neg { v.neg() } else { v };
            if v < lo {
                lo
            } else if v > hi {
                hi
            } else {
                v
            }
        })
        .boxed()
}

/// decimals around a target type's limits, written with trailing fractional zeros
fn to_case() -> BoxedStrategy<Case> {
    (0u8..10, 0u8..=18, 0u8..8, -2i128..=2, arb_d(), any::<u64>())
        .prop_map(|(ty, s, kind, off, free, r)| {
            let (lo, hi) = range(ty);
            let pow = Big::pow10(s as u32);
            let pick = |v: Big| -> Option<D> { v.to_i128().filter(|c| *c != i128::MIN).map(|c| D::new(c, s)) };
            let d = match kind {
                // integral value at the limit +- off, with s fractional zeros
                0 => pick(hi.add(&Big::from_i128(off)).mul(&pow)),
                1 => pick(lo.add(&Big::from_i128(off)).mul(&pow)),
                // non-integral just inside / outside the range
                2 => pick(hi.mul(&pow).add(&Big::from_i128(off))),
                3 => pick(lo.mul(&pow).add(&Big::from_i128(off))),
                // zero in all representations
                4 => Some(D::new(0, s)),
                // small integral values with trailing zeros
                5 => pick(Big::from_i128((r % 1000) as i128 * if off < 0 { -1 } else { 1 }).mul(&pow)),
                _ => None,
            };
            Case::To { ty, d: d.unwrap_or(free) }
        })
        .boxed()
}

macro_rules! to_int {
    ($t:ty, $d:expr) => {
        catch(|| {
            // the path call, TryInto, and the trait by name: all three are the same conversion
            let a = <$t>::try_from($d).map(|v| v.to_string());
            let b: Result<$t, _> = TryInto::<$t>::try_into($d);
            let c = <$t as TryFrom<Decimal>>::try_from($d).map(|v| v.to_string());
            let b = b.map(|v| v.to_string());
            if a != b || a != c {
                panic!("entry points disagree: T::try_from = {:?}, d.try_into() = {:?}, <T as TryFrom<Decimal>>::try_from = {:?}", a, b, c);
            }
            a
        })
    };
}

impl Prop for C14 {
    type Case = Case;
    fn id(&self) -> &'static str {
        "C14"
    }
    fn rule(&self) -> String {
        "Generated: Decimal::from(i) for the 9 integer types and Decimal::try_from(u128) on limits, limits+-1, small values, powers of two/ten +-2 and uniform bit lengths; T::try_from(d) for the 10 primitive types on integral values written with 0..=18 trailing fractional zeros at T::MIN/MAX and +-2, non-integral values just inside and outside the range, zero in all representations, and free decimals. \
         Enumerated exhaustively: From for every u8/i8/u16/i16 value, and T::try_from(v*10^s) for every u8/i8 value v at all 19 scales. \
         Oracle: From -> (i, 0); u128 > i128::MAX -> InternalOverflow; try_from(d): c mod 10^f != 0 -> NotAnIntValue, else in range -> Ok(c/10^f), else ValueOutOfRange (big-integer arithmetic). \
         Non-trivial: the Decimal carries fractional digits. Distinct: hash of the case."
            .into()
    }
    fn assumptions(&self) -> Vec<String> {
        vec!["Decimal operands |coefficient| <= 2^127-1; Decimal::from(i128::MIN) is part of the domain of From".into()]
    }
    fn cases(&self, tier: Tier) -> u64 {
        match tier {
            Tier::Quick => 1 << 19,
            Tier::Thorough => 1 << 24,
        }
    }
    fn strategy(&self, _tier: Tier) -> BoxedStrategy<Case> {
        prop_oneof![
            2 => (0u8..10).prop_flat_map(|ty| (Just(ty), arb_value(ty))).prop_map(|(ty, v)| Case::From { ty, v: v.to_string() }),
            5 => to_case(),
            2 => (0u8..10, arb_d()).prop_map(|(ty, d)| Case::To { ty, d }),
            1 => (0u8..10, arb_word_coeff(), arb_scale()).prop_map(|(ty, c, s)| Case::To { ty, d: D::new(c, s) }),
        ]
        .boxed()
    }
    fn enumerations(&self, _tier: Tier) -> Vec<Enumeration<Case>> {
        vec![
            Enumeration {
                name: "From<u8|i8|u16|i16>: every value",
                total: 256 + 256 + 65536 + 65536,
                produce: Box::new(|i| {
                    if i < 256 {
                        Case::From { ty: 0, v: i.to_string() }
                    } else if i < 512 {
                        Case::From { ty: 1, v: (i as i128 - 256 - 128).to_string() }
                    } else if i < 512 + 65536 {
                        Case::From { ty: 2, v: (i - 512).to_string() }
                    } else {
                        Case::From { ty: 3, v: (i as i128 - 512 - 65536 - 32768).to_string() }
                    }
                }),
            },
            Enumeration {
                name: "u8/i8/u16/i16::try_from(v * 10^s): v in -300..=300, s in 0..=18, 4 target types",
                total: 601 * 19 * 4,
                produce: Box::new(|i| {
                    let ty = (i % 4) as u8;
                    let i = i / 4;
                    let s = (i % 19) as u8;
                    let v = (i / 19) as i128 - 300;
                    Case::To { ty, d: D::new(v * 10i128.pow(s as u32), s) }
                }),
            },
        ]
    }
    fn mandatory_labels(&self, _tier: Tier) -> Vec<&'static str> {
        vec!["from", "from-u128-overflow", "to:ok", "to:not-int", "to:out-of-range", "to:ok-with-zeros", "to:not-int-out-of-range"]
    }
    fn builtin_corpus(&self) -> Vec<Case> {
        vec![
            Case::From { ty: 8, v: i128::MIN.to_string() },
            Case::From { ty: 9, v: u128::MAX.to_string() },
            Case::From { ty: 9, v: (i128::MAX as u128 + 1).to_string() },
            Case::From { ty: 9, v: (i128::MAX as u128).to_string() },
            Case::To { ty: 0, d: D::new(25500, 2) },
            Case::To { ty: 0, d: D::new(25600, 2) },
            Case::To { ty: 1, d: D::new(-12800, 2) },
            Case::To { ty: 9, d: D::new(-1, 0) },
            Case::To { ty: 9, d: D::new(-1, 1) },
            Case::To { ty: 8, d: D::new(MAXC, 18) },
            Case::To { ty: 7, d: D::new(0, 18) },
        ]
    }

    fn check(&self, case: &Case, ctx: &mut Ctx) {
        let _ambient = ambient_mode(case, ctx);
        match case {
            Case::_Unused(_) => {}
            Case::From { ty, v } => {
                ctx.label("from");
                ctx.sub();
                let vb = Big::parse_dec(v).expect("case value");
                macro_rules! from_int {
                    ($t:ty) => {{
                        let i: $t = v.parse::<$t>().expect("value in type");
                        catch(|| {
                            let d = Decimal::from(i);
                            let e: Decimal = i.into();
                            let f = <Decimal as From<$t>>::from(i);
                            if (d.coefficient(), d.n_frac_digits()) != (e.coefficient(), e.n_frac_digits()) || (d.coefficient(), d.n_frac_digits()) != (f.coefficient(), f.n_frac_digits()) {
                                panic!("entry points disagree: Decimal::from(i) = {:?}, i.into() = {:?}, <Decimal as From<T>>::from(i) = {:?}", d, e, f);
                            }
                            Ok::<(i128, u8), DecimalError>((d.coefficient(), d.n_frac_digits()))
                        })
                    }};
                }
                let got = match ty {
                    0 => from_int!(u8),
                    1 => from_int!(i8),
                    2 => from_int!(u16),
                    3 => from_int!(i16),
                    4 => from_int!(u32),
                    5 => from_int!(i32),
                    6 => from_int!(u64),
                    7 => from_int!(i64),
                    8 => from_int!(i128),
                    _ => {
                        let i: u128 = v.parse().expect("u128");
                        catch(|| Decimal::try_from(i).map(|d| (d.coefficient(), d.n_frac_digits())))
                    }
                };
                let want: Result<(i128, u8), DecimalError> = match vb.to_i128() {
                    Some(i) => Ok((i, 0)),
                    None => {
                        ctx.label("from-u128-overflow");
                        Err(DecimalError::InternalOverflow)
                    }
                };
                ctx.note(|| format!("from({v} as type {ty}): expected {want:?}, observed {got:?}"));
                match got {
                    Ok(g) if g == want => {}
                    Ok(g) => ctx.fail("C14/from-wrong", format!("Decimal from {v} (type index {ty}) = {g:?}; expected {want:?}")),
                    Err(p) => ctx.fail("C14/panics", format!("Decimal from {v} (type index {ty}) panicked: {p}")),
                }
            }
            Case::To { ty, d } => {
                let d = *d;
                ctx.sub();
                if d.s > 0 {
                    ctx.nontrivial();
                }
                let pow = Big::pow10(d.s as u32);
                let (q, r) = d.big().divrem_trunc(&pow);
                let (lo, hi) = range(*ty);
                let in_range = q >= lo && q <= hi;
                let want: Result<String, TryFromDecimalError> = if !r.is_zero() {
                    ctx.label("to:not-int");
                    // non-integral, whatever its range
                    let (fl, _) = d.big().divrem_floor(&pow);
                    if fl < lo || fl >= hi {
                        ctx.label("to:not-int-out-of-range");
                    }
                    Err(TryFromDecimalError::NotAnIntValue)
                } else if in_range {
                    ctx.label("to:ok");
                    if d.s > 0 && d.c != 0 {
                        ctx.label("to:ok-with-zeros");
                    }
                    Ok(q.to_string())
                } else {
                    ctx.label("to:out-of-range");
                    Err(TryFromDecimalError::ValueOutOfRange)
                };
                let dec = d.dec();
                let got = match ty {
                    0 => to_int!(u8, dec),
                    1 => to_int!(i8, dec),
                    2 => to_int!(u16, dec),
                    3 => to_int!(i16, dec),
                    4 => to_int!(u32, dec),
                    5 => to_int!(i32, dec),
                    6 => to_int!(u64, dec),
                    7 => to_int!(i64, dec),
                    8 => to_int!(i128, dec),
                    _ => to_int!(u128, dec),
                };
                let tn = ["u8", "i8", "u16", "i16", "u32", "i32", "u64", "i64", "i128", "u128"][(*ty as usize).min(9)];
                ctx.note(|| format!("{tn}::try_from({d}): expected {want:?}, observed {got:?}"));
                match got {
                    Ok(g) if g == want => {}
                    Ok(g) => {
                        let sig = match (&g, &want) {
                            (Err(_), Err(_)) => "C14/wrong-error-kind",
                            (Ok(_), Ok(_)) => "C14/wrong-value",
                            (Ok(_), Err(_)) => "C14/error-expected",
                            (Err(_), Ok(_)) => "C14/spurious-error",
                        };
                        ctx.fail(sig, format!("{tn}::try_from({d}) = {g:?}; expected {want:?}"))
                    }
                    Err(p) => ctx.fail("C14/panics", format!("{tn}::try_from({d}) panicked: {p}")),
                }
            }
        }
    }
}
