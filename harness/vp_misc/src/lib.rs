//! vp_misc: part of the fpdec property checks (split into several crates so that they build in parallel).

pub mod c08;
pub mod c09;
pub mod c12;
pub mod c13;
pub mod c14;
pub mod c15;

/// Run the check `id` if it lives in this crate (never returns then).
pub fn dispatch(id: &str, opts: &engine::Opts) {
    match id {
        "C08" => engine::run_prop(c08::C08, opts),
        "C09" => engine::run_prop(c09::C09, opts),
        "C12" => engine::run_prop(c12::C12, opts),
        "C13" => engine::run_prop(c13::C13, opts),
        "C14" => engine::run_prop(c14::C14, opts),
        "C15" => engine::run_prop(c15::C15, opts),
        _ => {}
    }
}
