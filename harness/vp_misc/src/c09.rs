//! C09 - Hash agrees with equality; as_integer_ratio is the reduced fraction.

use vcore::common::*;
use vcore::with_int;
use engine::{catch, Ctx, Prop, Tier};
use fpdec::{AsIntegerRatio, Decimal};
use oracle::{gcd, normalize, Big};
use proptest::prelude::*;
use serde::{Deserialize, Serialize};
use std::collections::hash_map::DefaultHasher;
use std::collections::HashSet;
use std::hash::{Hash, Hasher};

#[derive(Clone, Debug, Hash, PartialEq, Eq, Serialize, Deserialize)]
pub enum Case {
    Dec { x: D },
    Int { i: I },
}

pub struct C09;

fn h<T: Hash>(t: &T) -> u64 {
    let mut s = DefaultHasher::new();
    t.hash(&mut s);
    s.finish()
}

/// A Hasher that records which write_* methods were called with which bytes: two values
/// hash identically under EVERY Hasher iff they produce the same record.
#[derive(Default)]
struct Recorder {
    calls: Vec<(&'static str, Vec<u8>)>,
}

macro_rules! rec_int {
    ($($m:ident $t:ty),*) => {$(
        fn $m(&mut self, i: $t) {
            self.calls.push((stringify!($m), i.to_le_bytes().to_vec()));
        }
    )*};
}

impl Hasher for Recorder {
    fn finish(&self) -> u64 {
        0
    }
    fn write(&mut self, bytes: &[u8]) {
        self.calls.push(("write", bytes.to_vec()));
    }
    rec_int!(write_u8 u8, write_u16 u16, write_u32 u32, write_u64 u64, write_u128 u128, write_usize usize, write_i8 i8, write_i16 i16, write_i32 i32, write_i64 i64, write_i128 i128, write_isize isize);
}

fn record<T: Hash>(t: &T) -> Vec<(&'static str, Vec<u8>)> {
    let mut r = Recorder::default();
    t.hash(&mut r);
    r.calls
}

impl Prop for C09 {
    type Case = Case;
    fn id(&self) -> &'static str {
        "C09"
    }
    fn rule(&self) -> String {
        "Generated: Decimal representations (all coefficient classes plus 2^a*5^b*m gcd stress up to 2^126 / 5^18 and m*10^k trailing zeros); for each the normalised base value and ALL its equal-valued representations (c0*10^k, f0+k) with f0+k <= 18 that fit are formed. \
         Hash (std DefaultHasher with fixed keys) must be identical across all representations and equal to the hash of the (numerator, denominator) tuple; a recording Hasher (method name and bytes of every write_* call) must see the same call sequence for all representations and for the (numerator, denominator) tuple, and the same for element-wise equal slices through hash_slice (Vec / array keys), also slices mixing the value with related other values (same raw coefficient at another scale, negation, +1 ulp, zero); a HashSet holding one representation must contain every other. \
         as_integer_ratio / numerator / denominator must equal (c/g, 10^f/g) with g from Euclid's algorithm on big integers, d > 0, gcd 1; integers of the 9 types give (i, 1). \
         Non-trivial: at least two representations exist or g > 1. Distinct: hash of the case."
            .into()
    }
    fn assumptions(&self) -> Vec<String> {
        vec!["operands |coefficient| <= 2^127-1".into(), "agreement with the (numerator, denominator) tuple is checked with std's DefaultHasher (SipHash, fixed keys); agreement between equal representations under any Hasher through the recorded write calls".into()]
    }
    fn cases(&self, tier: Tier) -> u64 {
        match tier {
            Tier::Quick => 1 << 20,
            Tier::Thorough => 1 << 25,
        }
    }
    fn strategy(&self, _tier: Tier) -> BoxedStrategy<Case> {
        prop_oneof![
            6 => arb_d().prop_map(|x| Case::Dec { x }),
            1 => (arb_word_coeff(), arb_scale()).prop_map(|(c, s)| Case::Dec { x: D::new(c, s) }),
            // gcd stress: 2^a * 5^b * m with the scale chosen around a, b
            4 => (0u32..=126, 0u32..=54, 1i128..=999, 0u8..=18, any::<bool>()).prop_map(|(a, b, m, s, neg)| {
                let mut v: i128 = m;
                for _ in 0..b { match v.checked_mul(5) { Some(n) => v = n, None => break } }
                for _ in 0..a { match v.checked_mul(2) { Some(n) => v = n, None => break } }
                Case::Dec { x: D::new(if neg { -v } else { v }, s) }
            }),
            1 => arb_int().prop_map(|i| Case::Int { i }),
        ]
        .boxed()
    }
    fn mandatory_labels(&self, _tier: Tier) -> Vec<&'static str> {
        vec!["multi-repr", "gcd>1", "gcd=1", "zero", "integral", "int"]
    }
    fn builtin_corpus(&self) -> Vec<Case> {
        vec![
            Case::Dec { x: D::new(34, 1) },
            Case::Dec { x: D::new(3385148, 4) },
            Case::Dec { x: D::new(0, 7) },
            Case::Dec { x: D::new(-(1i128 << 126), 18) },
            Case::Dec { x: D::new(5i128.pow(18) * 3, 18) },
            Case::Dec { x: D::new(MAXC, 18) },
        ]
    }

    fn check(&self, case: &Case, ctx: &mut Ctx) {
        let _ambient = ambient_mode(case, ctx);
        match *case {
            Case::Int { i } => {
                ctx.label("int");
                ctx.sub();
                let got = with_int!(i, iv => catch(|| (iv.as_integer_ratio(), iv.numerator(), iv.denominator())));
                match got {
                    Ok((r, n, d)) if r == (i.v, 1) && n == i.v && d == 1 => {}
                    Ok(o) => ctx.fail("C09/int-ratio", format!("{i:?}: as_integer_ratio/numerator/denominator = {o:?}; expected ({}, 1)", i.v)),
                    Err(p) => ctx.fail("C09/panics", format!("{i:?}: panicked: {p}")),
                }
            }
            Case::Dec { x } => {
                // ---- reduced fraction
                let c = x.big();
                let den = Big::pow10(x.s as u32);
                let g = if c.is_zero() { den } else { gcd(&c, &den) };
                let (n, _) = c.divrem_trunc(&g);
                let (d, _) = den.divrem_trunc(&g);
                let (n, d) = (n.to_i128().unwrap(), d.to_i128().unwrap());
                if x.c == 0 {
                    ctx.label("zero");
                }
                if d == 1 {
                    ctx.label("integral");
                }
                if g > Big::one() && x.c != 0 {
                    ctx.label("gcd>1");
                    ctx.nontrivial();
                } else if x.c != 0 {
                    ctx.label("gcd=1");
                }
                let dec = x.dec();
                ctx.sub();
                let got = catch(|| (dec.as_integer_ratio(), dec.numerator(), dec.denominator()));
                // the same through a reference and through the trait by name (method resolution)
                let got_ref = catch(|| {
                    let r = &dec;
                    (r.as_integer_ratio(), r.numerator(), r.denominator(), AsIntegerRatio::as_integer_ratio(dec), AsIntegerRatio::numerator(dec), AsIntegerRatio::denominator(dec))
                });
                ctx.sub();
                match (&got, &got_ref) {
                    (Ok(a), Ok(b)) if (a.0, a.1, a.2) == (b.0, b.1, b.2) && (a.0, a.1, a.2) == (b.3, b.4, b.5) => {}
                    (Err(_), Err(_)) => {}
                    _ => ctx.fail("C09/ratio-forms-differ", format!("{x}: by value {got:?}, through a reference / the trait by name {got_ref:?}")),
                }
                ctx.note(|| format!("{x}: expected ratio ({n}, {d}), observed {got:?}"));
                match got {
                    Ok((r, nn, dd)) if r == (n, d) && nn == n && dd == d => {}
                    Ok(o) => ctx.fail("C09/ratio-wrong", format!("{x}: (as_integer_ratio, numerator, denominator) = {o:?}; expected ({n}, {d})")),
                    Err(p) => ctx.fail("C09/panics", format!("{x}: ratio panicked: {p}")),
                }
                // ---- all equal-valued representations
                let (c0, f0) = normalize(&c, x.s as u32);
                let mut reprs: Vec<D> = Vec::new();
                let mut cur = c0;
                for f in f0..=18 {
                    match cur.to_i128() {
                        Some(v) if v != i128::MIN => reprs.push(D::new(v, f as u8)),
                        _ => break,
                    }
                    cur = cur.mul(&Big::from_u64(10));
                }
                if reprs.len() >= 2 {
                    ctx.label("multi-repr");
                    ctx.nontrivial();
                }
                let r = catch(|| {
                    let want = h(&(n, d));
                    let mut bad: Vec<String> = Vec::new();
                    let mut set: HashSet<Decimal> = HashSet::new();
                    set.insert(dec);
                    let rec0 = record(&dec);
                    // "identically to their (numerator, denominator) pair" for EVERY Hasher: the
                    // Decimal must drive the Hasher with the same calls as the tuple does
                    let rec_pair = record(&(n, d));
                    if rec0 != rec_pair {
                        bad.push(format!("a recording Hasher sees {rec0:?} for the Decimal but {rec_pair:?} for its (numerator, denominator) pair"));
                    }
                    // (done for the first and the last representation only: cost)
                    let slice_rec = |v: &[Decimal]| {
                        let mut a = Recorder::default();
                        Hash::hash_slice(v, &mut a);
                        a.calls
                    };
                    for r in [reprs.first(), reprs.last()].into_iter().flatten() {
                        let rd = r.dec();
                        // slices that mix DIFFERENT values: neighbours y related to x (the same raw
                        // coefficient at another scale, the negation, x + 1 ulp, zero); replacing an
                        // element by an equal-valued representation must not change what is fed
                        let others = [
                            D::new(x.c, (x.s + 1) % 19),
                            D::new(x.c, (x.s + 18) % 19),
                            D::new(-x.c, x.s),
                            D::new(x.c.saturating_add(1).min(MAXC), x.s),
                            D::new(0, x.s),
                        ];
                        for y in others {
                            let yd = y.dec();
                            for (what, a, b) in [("[x, y] vs [r, y]", [dec, yd], [rd, yd]), ("[y, x] vs [y, r]", [yd, dec], [yd, rd]), ("[x, y, x] vs [r, y, r]", [dec, yd], [rd, yd])] {
                                let (ra, rb) = if what.starts_with("[x, y, x]") {
                                    (slice_rec(&[a[0], a[1], a[0]]), slice_rec(&[b[0], b[1], b[0]]))
                                } else {
                                    (slice_rec(&a), slice_rec(&b))
                                };
                                if ra != rb {
                                    bad.push(format!("hash_slice {what} with y = {y}, r = {r}: {ra:?} versus {rb:?} although the slices are element-wise equal"));
                                }
                            }
                        }
                    }
                    for r in &reprs {
                        let rd = r.dec();
                        let hv = h(&rd);
                        // any Hasher: the sequence of write calls must not depend on the representation
                        let rec = record(&rd);
                        if rec != rec0 {
                            bad.push(format!("a recording Hasher sees {rec:?} for {r} but {rec0:?} for the equal value {x}"));
                        }
                        // equal slices (element-wise equal values) must hash identically too:
                        // Vec<Decimal> / [Decimal; N] keys go through hash_slice
                        let slice_rec = |v: &[Decimal]| {
                            let mut a = Recorder::default();
                            Hash::hash_slice(v, &mut a);
                            a.calls
                        };
                        let base = slice_rec(&[dec, dec]);
                        for (what, v) in [("[r, x]", [rd, dec]), ("[x, r]", [dec, rd]), ("[r, r]", [rd, rd])] {
                            if slice_rec(&v) != base {
                                bad.push(format!("hash_slice of {what} with r = {r} feeds {:?}, hash_slice of [x, x] feeds {base:?} although all elements are equal", slice_rec(&v)));
                            }
                        }
                        if h(&vec![rd, dec]) != h(&vec![dec, dec]) {
                            bad.push(format!("hash(vec![{r}, {x}]) differs from hash(vec![{x}, {x}])"));
                        }
                        if hv != want {
                            bad.push(format!("hash({r}) = {hv:#x} differs from hash(({n}, {d})) = {want:#x}"));
                        }
                        if !set.contains(&rd) {
                            bad.push(format!("HashSet holding {x} does not contain the equal value {r}"));
                        }
                        if rd != dec {
                            bad.push(format!("{r} != {x} although the values are equal"));
                        }
                    }
                    bad
                });
                ctx.sub();
                match r {
                    Ok(bad) => {
                        for b in bad {
                            ctx.fail("C09/hash-eq", format!("{x}: {b}"));
                        }
                    }
                    Err(p) => ctx.fail("C09/panics", format!("{x}: hashing panicked: {p}")),
                }
            }
        }
    }
}
