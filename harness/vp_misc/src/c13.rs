//! C13 - f64/f32 to Decimal yields the nearest 18-digit Decimal or a precise error.

use vcore::common::ambient_mode;
use engine::{catch, Ctx, Enumeration, Prop, Tier};
use fpdec::{Decimal, DecimalError};
use oracle::float::{ref_from_f32_fast, ref_from_float, Decoded, RefFromFloat, F32, F64};
use proptest::prelude::*;
use serde::{Deserialize, Serialize};

#[derive(Clone, Debug, Hash, PartialEq, Eq, Serialize, Deserialize)]
pub enum Case {
    F64 { bits: u64 },
    F32 { bits: u32 },
}

pub struct C13;

fn mant(kind: u8, r: u64, bits: u32) -> u64 {
    let mask = (1u64 << bits) - 1;
    match kind % 6 {
        0 => 0,
        1 => mask,
        2 => 1,
        3 => 1u64 << (r % bits as u64),
        4 => (r & mask) & !((1u64 << (r % bits as u64)) - 1), // trailing zeros
        _ => r & mask,
    }
}

fn f64_cases() -> BoxedStrategy<Case> {
    prop_oneof![
        2 => any::<u64>().prop_map(|bits| Case::F64 { bits }),
        // exponent-directed: value range 2^-140 ... 2^135
        5 => (any::<bool>(), -140i32..=135, 0u8..6, any::<u64>()).prop_map(|(neg, e, k, r)| {
            let be = (e + 1023) as u64;
            Case::F64 { bits: ((neg as u64) << 63) | (be << 52) | mant(k, r, 52) }
        }),
        // dyadic ties: odd k / 2^j, j in 19..=45 (a 5 in the 19th place and nothing after)
        4 => (any::<u64>(), 0u32..=52, 19u32..=45, any::<bool>(), -1i64..=1).prop_map(|(k, sh, j, neg, off)| {
            let k = ((k >> 11) >> sh.min(52)) | 1;
            let v = (k as f64) / 2f64.powi(j as i32);
            let bits = (v.to_bits() as i64 + off) as u64;
            Case::F64 { bits: bits | ((neg as u64) << 63) }
        }),
        // integers near +-2^127 and large exponents
        1 => (any::<bool>(), 120i32..=130, 0u8..6, any::<u64>()).prop_map(|(neg, e, k, r)| {
            Case::F64 { bits: ((neg as u64) << 63) | (((e + 1023) as u64) << 52) | mant(k, r, 52) }
        }),
        // specials: zeros, subnormals, infinities, NaNs with payloads
        1 => (any::<bool>(), 0u8..5, any::<u64>()).prop_map(|(neg, k, r)| {
            let body = match k {
                0 => 0,
                1 => r & ((1 << 52) - 1),                     // subnormal
                2 => 0x7ffu64 << 52,                          // inf
                3 => (0x7ffu64 << 52) | (r & ((1 << 52) - 1)) | 1, // NaN with payload
                _ => (1u64 << 52) | (r & 0xff),               // smallest normals
            };
            Case::F64 { bits: ((neg as u64) << 63) | body }
        }),
    ]
    .boxed()
}

fn f32_cases() -> BoxedStrategy<Case> {
    prop_oneof![
        2 => any::<u32>().prop_map(|bits| Case::F32 { bits }),
        4 => (any::<bool>(), -126i32..=127, 0u8..6, any::<u64>()).prop_map(|(neg, e, k, r)| {
            let be = (e + 127) as u32;
            Case::F32 { bits: ((neg as u32) << 31) | (be << 23) | mant(k, r, 23) as u32 }
        }),
        3 => (any::<u32>(), 0u32..=23, 19u32..=45, any::<bool>(), -1i32..=1).prop_map(|(k, sh, j, neg, off)| {
            let k = ((k >> 8) >> sh.min(23)) | 1;
            let v = (k as f32) / 2f32.powi(j as i32);
            let bits = (v.to_bits() as i32 + off) as u32;
            Case::F32 { bits: bits | ((neg as u32) << 31) }
        }),
        1 => (any::<bool>(), 0u8..5, any::<u32>()).prop_map(|(neg, k, r)| {
            let body = match k {
                0 => 0,
                1 => r & ((1 << 23) - 1),
                2 => 0xffu32 << 23,
                3 => (0xffu32 << 23) | (r & ((1 << 23) - 1)) | 1,
                _ => (1u32 << 23) | (r & 0xff),
            };
            Case::F32 { bits: ((neg as u32) << 31) | body }
        }),
    ]
    .boxed()
}

impl Prop for C13 {
    type Case = Case;
    fn id(&self) -> &'static str {
        "C13"
    }
    fn rule(&self) -> String {
        "Generated: raw bit patterns of f64 and f32: uniform, exponent-field directed (values 2^-140..2^135) with mantissa patterns (0, all ones, single bits, trailing zeros, random), dyadic ties k/2^j with odd k and j in 19..=45 (exactly a 5 in the 19th decimal place) and their neighbours, integers near +-2^127, zeros, subnormals, infinities, NaNs with payloads. \
         Thorough tier: all 2^32 f32 patterns are enumerated. Oracle: NaN -> NotANumber, infinity -> InfiniteValue, else the exact value sig*2^e times 10^18 rounded half-to-even in big integers, trailing zeros stripped, InternalOverflow iff the normalised coefficient exceeds +-(2^127-1); no panic. \
         Non-trivial: finite and non-integral. Distinct: the bit pattern."
            .into()
    }
    fn assumptions(&self) -> Vec<String> {
        vec!["a result coefficient of exactly -2^127 may be returned or reported as InternalOverflow".into()]
    }
    fn cases(&self, tier: Tier) -> u64 {
        match tier {
            Tier::Quick => 1 << 20,
            Tier::Thorough => 1 << 25,
        }
    }
    fn strategy(&self, _tier: Tier) -> BoxedStrategy<Case> {
        prop_oneof![3 => f64_cases(), 2 => f32_cases()].boxed()
    }
    fn enumerations(&self, tier: Tier) -> Vec<Enumeration<Case>> {
        match tier {
            Tier::Quick => vec![Enumeration {
                name: "f32: every 4099th bit pattern (stride sample of the exhaustive thorough enumeration)",
                total: (1u64 << 32) / 4099,
                produce: Box::new(|i| Case::F32 { bits: (i * 4099) as u32 }),
            }],
            Tier::Thorough => vec![Enumeration {
                name: "f32: all 2^32 bit patterns",
                total: 1u64 << 32,
                produce: Box::new(|i| Case::F32 { bits: i as u32 }),
            }],
        }
    }
    fn mandatory_labels(&self, _tier: Tier) -> Vec<&'static str> {
        vec!["nan", "inf", "zero", "subnormal", "integral", "exact<=18", "rounded", "tie", "overflow", "tiny->0", "f32", "f64"]
    }
    fn builtin_corpus(&self) -> Vec<Case> {
        vec![
            Case::F64 { bits: 0 },
            Case::F64 { bits: 1u64 << 63 },
            Case::F64 { bits: 5.9e29f64.to_bits() },
            Case::F64 { bits: (2f64.powi(127)).to_bits() },
            Case::F64 { bits: (-(2f64.powi(127))).to_bits() },
            Case::F64 { bits: (2f64.powi(127) - 2f64.powi(74)).to_bits() },
            Case::F64 { bits: 0.1f64.to_bits() },
            Case::F64 { bits: (1.0f64 / 2f64.powi(19)).to_bits() },
            Case::F64 { bits: (3.0f64 / 2f64.powi(19)).to_bits() },
            Case::F64 { bits: f64::MAX.to_bits() },
            Case::F64 { bits: f64::MIN_POSITIVE.to_bits() },
            Case::F32 { bits: f32::MAX.to_bits() },
            Case::F32 { bits: 0.1f32.to_bits() },
            Case::F32 { bits: (2f32.powi(127)).to_bits() },
            Case::F64 { bits: 5e-19f64.to_bits() },
            Case::F64 { bits: 4.9999999999999e-19f64.to_bits() },
            Case::F64 { bits: 1.5e-18f64.to_bits() },
        ]
    }

    fn check(&self, case: &Case, ctx: &mut Ctx) {
        let _ambient = ambient_mode(case, ctx);
        let (fmt, bits, is32) = match *case {
            Case::F64 { bits } => (F64, bits, false),
            Case::F32 { bits } => (F32, bits as u64, true),
        };
        ctx.label(if is32 { "f32" } else { "f64" });
        // f32: fast u128 oracle (all 2^32 patterns are enumerated in the thorough tier); the
        // big-integer oracle cross-checks it on every 61st pattern and on all generated cases < 2^20
        let want = if is32 {
            let fast = ref_from_f32_fast(bits as u32);
            if bits % 61 == 0 || bits < (1 << 20) {
                let slow = ref_from_float(&fmt, bits);
                assert!(fast == slow, "oracle self-check: fast f32 oracle {fast:?} != big-integer oracle {slow:?} for bits {bits:#x}");
            }
            fast
        } else {
            ref_from_float(&fmt, bits)
        };
        match fmt.decode(bits) {
            Decoded::Nan => ctx.label("nan"),
            Decoded::Inf { .. } => ctx.label("inf"),
            Decoded::Finite { sig, exp, .. } => {
                if sig == 0 {
                    ctx.label("zero");
                } else {
                    if (bits >> fmt.mant_bits) & ((1 << fmt.exp_bits) - 1) == 0 {
                        ctx.label("subnormal");
                    }
                    let integral = exp >= 0 || (exp > -64 && sig & ((1u64 << (-exp)) - 1) == 0);
                    if integral {
                        ctx.label("integral");
                    } else {
                        ctx.nontrivial();
                        // exact with <= 18 fractional digits <=> 2^(-exp) | sig * 10^18 <=> -exp - tz(sig) <= 18
                        let need = (-exp) as u32 - sig.trailing_zeros();
                        if need <= 18 {
                            ctx.label("exact<=18");
                        } else {
                            ctx.label("rounded");
                            if need == 19 {
                                ctx.label("tie");
                            }
                        }
                    }
                }
            }
        }
        match &want {
            RefFromFloat::Overflow => ctx.label("overflow"),
            RefFromFloat::Ok { coeff: 0, .. } => {
                if let Decoded::Finite { sig, .. } = fmt.decode(bits) {
                    if sig != 0 {
                        ctx.label("tiny->0");
                    }
                }
            }
            _ => {}
        }
        ctx.sub();
        let got: Result<Result<Decimal, DecimalError>, String> =
            if bits % 8 != 3 {
                // (the other entry points are exercised on every 8th pattern: cost of the 2^32 enumeration)
                if is32 { catch(|| Decimal::try_from(f32::from_bits(bits as u32))) } else { catch(|| Decimal::try_from(f64::from_bits(bits))) }
            } else if is32 {
                catch(|| {
                    let f = f32::from_bits(bits as u32);
                    let a = Decimal::try_from(f);
                    let b: Result<Decimal, DecimalError> = f.try_into();
                    let c = <Decimal as TryFrom<f32>>::try_from(f);
                    let key = |r: &Result<Decimal, DecimalError>| r.as_ref().map(|d| (d.coefficient(), d.n_frac_digits())).map_err(|e| format!("{e:?}"));
                    if key(&a) != key(&b) || key(&a) != key(&c) {
                        panic!("entry points disagree: Decimal::try_from(f) = {:?}, f.try_into() = {:?}, <Decimal as TryFrom<f32>>::try_from(f) = {:?}", a, b, c);
                    }
                    a
                })
            } else {
                catch(|| {
                    let f = f64::from_bits(bits);
                    let a = Decimal::try_from(f);
                    let b: Result<Decimal, DecimalError> = f.try_into();
                    let c = <Decimal as TryFrom<f64>>::try_from(f);
                    let key = |r: &Result<Decimal, DecimalError>| r.as_ref().map(|d| (d.coefficient(), d.n_frac_digits())).map_err(|e| format!("{e:?}"));
                    if key(&a) != key(&b) || key(&a) != key(&c) {
                        panic!("entry points disagree: Decimal::try_from(f) = {:?}, f.try_into() = {:?}, <Decimal as TryFrom<f64>>::try_from(f) = {:?}", a, b, c);
                    }
                    a
                })
            };
        let shown = match &got {
            Ok(Ok(d)) => format!("Ok({} @{})", d.coefficient(), d.n_frac_digits()),
            Ok(Err(e)) => format!("Err({e:?})"),
            Err(p) => format!("Panic({p})"),
        };
        let val = if is32 { format!("{:e}", f32::from_bits(bits as u32)) } else { format!("{:e}", f64::from_bits(bits)) };
        ctx.note(|| format!("try_from({val} bits {bits:#x}): expected {want:?}, observed {shown}"));
        let mut fail = |sig: &str| ctx.fail(sig, format!("Decimal::try_from({val}) [bits {bits:#x}]: expected {want:?}, observed {shown}"));
        match (&got, &want) {
            (Err(_), _) => fail("C13/panics"),
            (Ok(Err(DecimalError::NotANumber)), RefFromFloat::NotANumber) => {}
            (Ok(Err(DecimalError::InfiniteValue)), RefFromFloat::Infinite) => {}
            (Ok(Err(DecimalError::InternalOverflow)), RefFromFloat::Overflow | RefFromFloat::EdgeMin) => {}
            (Ok(Ok(d)), RefFromFloat::Ok { coeff, scale }) => {
                if d.coefficient() != *coeff || d.n_frac_digits() != *scale {
                    if d.n_frac_digits() != *scale && oracle::Big::from_i128(d.coefficient()).mul(&oracle::Big::pow10(*scale as u32)) == oracle::Big::from_i128(*coeff).mul(&oracle::Big::pow10(d.n_frac_digits() as u32)) {
                        fail("C13/not-normalised")
                    } else {
                        fail("C13/wrong-value")
                    }
                }
            }
            (Ok(Ok(d)), RefFromFloat::EdgeMin) => {
                if d.coefficient() != i128::MIN || d.n_frac_digits() != 0 {
                    fail("C13/wrong-value")
                }
            }
            (Ok(Ok(_)), RefFromFloat::Overflow) => fail("C13/overflow-not-reported"),
            (Ok(Ok(_)), _) => fail("C13/error-expected"),
            (Ok(Err(_)), _) => fail("C13/wrong-error"),
        }
    }
}
