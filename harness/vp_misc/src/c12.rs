//! C12 - Decimal to f64/f32 conversion is correctly rounded.

use vcore::common::*;
use engine::{catch, Ctx, Prop, Tier};
use oracle::float::{Decoded, FloatFmt, F32, F64};
use oracle::Big;
use proptest::prelude::*;
use serde::{Deserialize, Serialize};

#[derive(Clone, Debug, Hash, PartialEq, Eq, Serialize, Deserialize)]
pub struct Case {
    pub x: D,
}

pub struct C12;

fn mant_pattern(kind: u8, r: u64, bits: u32) -> u64 {
    let mask = (1u64 << bits) - 1;
    match kind % 6 {
        0 => 0,
        1 => mask,
        2 => 1,
        3 => mask - 1,
        4 => 1u64 << (r % bits as u64),
        _ => r & mask,
    }
}

/// decimals at / next to the midpoint between two adjacent floats
fn midpoint_case() -> BoxedStrategy<Case> {
    (any::<bool>(), 1u8..=18, -62i32..=126, 0u8..6, any::<u64>(), -1i128..=2, any::<bool>(), any::<bool>())
        .prop_map(|(is32, p, e, kind, r, off, neg, exact_float)| {
            let fmt: FloatFmt = if is32 { F32 } else { F64 };
            // keep m * 10^p within the coefficient range: 2^e * 10^p < 2^126
            let emax = 125 - ((p as i32) * 3322 + 999) / 1000;
            let e = e.min(emax);
            let frac = mant_pattern(kind, r, fmt.mant_bits);
            let sig = frac | (1u64 << fmt.mant_bits); // value = sig * 2^(e - mant_bits)
            // midpoint between sig and sig+1 (or the float itself): (2*sig + 1) * 2^(e - mant_bits - 1)
            let num = if exact_float { Big::from_u64(sig).mul(&Big::from_u64(2)) } else { Big::from_u64(sig).mul(&Big::from_u64(2)).add(&Big::one()) };
            let sh = e - fmt.mant_bits as i32 - 1;
            let scaled = num.mul(&Big::pow10(p as u32));
            let c = if sh >= 0 { scaled.mul(&Big::pow2(sh as u32)) } else { scaled.divrem_trunc(&Big::pow2((-sh) as u32)).0 };
            let c = c.add(&Big::from_i128(off));
            let c = c.to_i128().filter(|v| *v != i128::MIN && *v >= 0).unwrap_or(r as i128);
            Case { x: D::new(if neg { -c } else { c }, p) }
        })
        .boxed()
}

/// integral values: scale 0 (cast path) and with trailing zeros (division path)
fn integral_case() -> BoxedStrategy<Case> {
    (arb_magnitude(), 0u8..=18, any::<bool>())
        .prop_map(|(m, s, neg)| {
            let c = m.checked_mul(10i128.pow(s as u32)).unwrap_or(m);
            let s = if m.checked_mul(10i128.pow(s as u32)).is_some() { s } else { 0 };
            Case { x: D::new(if neg { -c } else { c }, s) }
        })
        .boxed()
}

impl Prop for C12 {
    type Case = Case;
    fn id(&self) -> &'static str {
        "C12"
    }
    fn rule(&self) -> String {
        "Generated: Decimal representations from all classes; constructed mid-points: for a random f64/f32 (exponent -62..=126, mantissa patterns 0, all ones, single bit, random) the exact mid-point m to the next float, coefficient = floor(m*10^p) + {-1,0,1,2} for p in 1..=18 (exact ties whenever the mid-point has <= p fractional digits), the floats themselves, integral values with scale 0 (cast path) and with trailing zeros (division path). \
         Both f64::from(d) and f32::from(d) are compared on to_bits with two independent oracles that must both accept: std's correctly rounded decimal-to-float parser on \"{c}e-{p}\" and an exact big-integer round-half-even of c/10^p to the float grid; sign bit = sign of d, zero -> +0.0. \
         Non-trivial: scale > 0 and coefficient != 0 (division path). Distinct: hash of (coefficient, scale)."
            .into()
    }
    fn assumptions(&self) -> Vec<String> {
        vec!["operands |coefficient| <= 2^127-1".into(), "std's str::parse::<f64/f32> is correctly rounded (cross-checked against the exact oracle on every case)".into()]
    }
    fn cases(&self, tier: Tier) -> u64 {
        match tier {
            Tier::Quick => 1 << 20,
            Tier::Thorough => 1 << 25,
        }
    }
    fn strategy(&self, _tier: Tier) -> BoxedStrategy<Case> {
        prop_oneof![
            3 => arb_d().prop_map(|x| Case { x }),
            1 => (arb_word_coeff(), arb_scale()).prop_map(|(c, s)| Case { x: D::new(c, s) }),
            5 => midpoint_case(),
            1 => integral_case(),
        ]
        .boxed()
    }
    fn mandatory_labels(&self, _tier: Tier) -> Vec<&'static str> {
        vec!["f64-exact-tie", "f32-exact-tie", "f64-near-tie", "f32-near-tie", "division-path", "cast-path", "negative", "zero", "f64-inexact", "f64-exact"]
    }
    fn builtin_corpus(&self) -> Vec<Case> {
        vec![
            Case { x: D::new(0, 5) },
            Case { x: D::new(1, 18) },
            Case { x: D::new(-1, 1) },
            Case { x: D::new(MAXC, 0) },
            Case { x: D::new(MAXC, 18) },
            Case { x: D::new(9007199254740993, 0) },
            Case { x: D::new(90071992547409930, 1) },
            Case { x: D::new(16777217, 0) },
            Case { x: D::new(167772170, 1) },
            Case { x: D::new(5, 1) },
        ]
    }

    fn check(&self, case: &Case, ctx: &mut Ctx) {
        let _ambient = ambient_mode(case, ctx);
        let x = case.x;
        let d = x.dec();
        if x.c == 0 {
            ctx.label("zero");
        }
        if x.c < 0 {
            ctx.label("negative");
        }
        if x.s > 0 && x.c != 0 {
            ctx.label("division-path");
            ctx.nontrivial();
        } else {
            ctx.label("cast-path");
        }
        let num = x.big();
        let den = Big::pow10(x.s as u32);
        let text = format!("{}e-{}", x.c, x.s);
        for (is32, fmt) in [(false, F64), (true, F32)] {
            ctx.sub();
            let want_exact = fmt.nearest_bits(&num, &den);
            let want_std: u64 = if is32 { text.parse::<f32>().unwrap().to_bits() as u64 } else { text.parse::<f64>().unwrap().to_bits() };
            // std parses "-0e-5" as -0.0; the property maps zero to +0.0
            let want_std = if x.c == 0 { 0 } else { want_std };
            assert!(want_exact == want_std, "oracles disagree on {text}: exact {want_exact:#x} std {want_std:#x}");
            // classification: distance to the neighbouring mid-points
            if x.c != 0 {
                if let Decoded::Finite { sig, exp, .. } = fmt.decode(want_exact) {
                    // value == sig * 2^exp exactly?
                    let (l, r) = if exp >= 0 { (num.abs(), den.mul(&Big::from_u64(sig)).mul(&Big::pow2(exp as u32))) } else { (num.abs().mul(&Big::pow2((-exp) as u32)), den.mul(&Big::from_u64(sig))) };
                    let exact = l == r;
                    // tie: 2*|d| == (2*sig +- 1) * 2^exp
                    let two_l = l.mul(&Big::from_u64(2));
                    let unit = if exp >= 0 { den.mul(&Big::pow2(exp as u32)) } else { den };
                    let up = Big::from_u64(sig).mul(&Big::from_u64(2)).add(&Big::one()).mul(&unit);
                    let dn = Big::from_u64(sig).mul(&Big::from_u64(2)).sub(&Big::one()).mul(&unit);
                    let tie = two_l == up || two_l == dn;
                    // within one decimal ulp (2^(-exp) scaled) of a mid-point
                    let ulp2 = if exp >= 0 { Big::from_u64(2) } else { Big::pow2((-exp) as u32 + 1) };
                    let near = two_l.sub(&up).abs() <= ulp2 || two_l.sub(&dn).abs() <= ulp2;
                    match (is32, exact, tie, near) {
                        (false, true, _, _) => ctx.label("f64-exact"),
                        (false, _, true, _) => ctx.label("f64-exact-tie"),
                        (false, _, _, true) => ctx.label("f64-near-tie"),
                        (false, ..) => ctx.label("f64-inexact"),
                        (true, true, _, _) => ctx.label("f32-exact"),
                        (true, _, true, _) => ctx.label("f32-exact-tie"),
                        (true, _, _, true) => ctx.label("f32-near-tie"),
                        (true, ..) => ctx.label("f32-inexact"),
                    }
                }
            }
            let got: Result<u64, String> = if is32 { catch(|| f32::from(d).to_bits() as u64) } else { catch(|| f64::from(d).to_bits()) };
            let name = if is32 { "f32::from" } else { "f64::from" };
            ctx.note(|| format!("{name}({x}) expected bits {want_exact:#x}, observed {got:?}"));
            match got {
                Ok(b) if b == want_exact => {}
                Ok(b) => {
                    let show = |v: u64| if is32 { format!("{:e}", f32::from_bits(v as u32)) } else { format!("{:e}", f64::from_bits(v)) };
                    let sig = if (b ^ want_exact) >> (fmt.mant_bits + fmt.exp_bits) != 0 { "C12/wrong-sign" } else if b.abs_diff(want_exact) == 1 { "C12/off-by-one-ulp" } else { "C12/wrong-value" };
                    ctx.fail(sig, format!("{name}({x}) = {} (bits {b:#x}); correctly rounded is {} (bits {want_exact:#x})", show(b), show(want_exact)));
                }
                Err(p) => ctx.fail("C12/panics", format!("{name}({x}) panicked: {p}")),
            }
            // the negated value right after it, then the value again, and through Into: a conversion
            // must not depend on the previous one (sign bit flipped, same magnitude bits)
            if x.c != 0 {
                ctx.sub();
                let neg = fpdec::Decimal::new_raw(-x.c, x.s);
                let seq: Result<(u64, u64, u64), String> = if is32 {
                    catch(|| {
                        let b: f32 = neg.into();
                        let c: f32 = (&d).clone().into();
                        (f32::from(neg).to_bits() as u64, b.to_bits() as u64, c.to_bits() as u64)
                    })
                } else {
                    catch(|| {
                        let b: f64 = neg.into();
                        let c: f64 = (&d).clone().into();
                        (f64::from(neg).to_bits(), b.to_bits(), c.to_bits())
                    })
                };
                let sign_bit = 1u64 << (fmt.mant_bits + fmt.exp_bits);
                let want_neg = want_exact ^ sign_bit;
                match seq {
                    Ok((n1, n2, p2)) if n1 == want_neg && n2 == want_neg && p2 == want_exact => {}
                    Ok(o) => ctx.fail("C12/depends-on-previous-conversion", format!("{name}: after converting {x}, converting its negation twice and the value again gives bits {o:x?}; expected ({want_neg:#x}, {want_neg:#x}, {want_exact:#x})")),
                    Err(p) => ctx.fail("C12/panics", format!("{name}(-{x}) panicked: {p}")),
                }
            }
        }
    }
}
