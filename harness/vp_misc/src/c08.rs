//! C08 - equality and ordering are by numeric value and form a total order; rkyv.

use vcore::common::*;
use vcore::with_int;
use engine::{catch, Ctx, Prop, Tier};
use fpdec::{ArchivedDecimal, Decimal};
use oracle::Big;
use proptest::prelude::*;
use rkyv::Deserialize as RkyvDeserialize;
use serde::{Deserialize, Serialize};
use std::cmp::Ordering;

#[derive(Clone, Debug, Hash, PartialEq, Eq, Serialize, Deserialize)]
pub enum Case {
    Tri { a: D, b: D, c: D },
    Int { d: D, i: I },
    /// rkyv: the three values archived inside containers (a Vec, a struct behind a u8 field),
    /// so that the archived Decimals do not sit at the start of the buffer; executed in a child
    /// process because a failing validation may abort the process instead of unwinding
    Containers { a: D, b: D, c: D },
}

pub struct C08;

fn exact_cmp(a: (i128, u8), b: (i128, u8)) -> Ordering {
    let l = Big::from_i128(a.0).mul(&Big::pow10(b.1 as u32));
    let r = Big::from_i128(b.0).mul(&Big::pow10(a.1 as u32));
    l.cmp(&r)
}

/// a value related to `a`: same value at another scale, +-1 ulp at the finer scale, or free
fn related(a: D, kind: u8, k: u8, d: i128, free: D) -> D {
    match kind % 5 {
        0 => {
            // same value, more fractional digits (if it fits)
            let k = k % (19 - a.s);
            match a.c.checked_mul(10i128.pow(k as u32)) {
                Some(c) if c != i128::MIN => D::new(c, a.s + k),
                _ => a,
            }
        }
        1 => {
            // same value, fewer digits when divisible
            let mut c = a.c;
            let mut s = a.s;
            let mut k = k;
            while s > 0 && c % 10 == 0 && k > 0 {
                c /= 10;
                s -= 1;
                k -= 1;
            }
            D::new(c, s)
        }
        2 => {
            // adjacent value at a finer scale
            let k = k % (19 - a.s);
            match a.c.checked_mul(10i128.pow(k as u32)).and_then(|c| c.checked_add(d)) {
                Some(c) if c != i128::MIN => D::new(c, a.s + k),
                _ => D::new(a.c.saturating_add(d).max(-MAXC), a.s),
            }
        }
        3 => {
            // alignment overflows: huge coefficient at a much smaller scale
            let s = a.s.saturating_sub(1 + k % 18);
            D::new(if d < 0 { -(MAXC - (d.unsigned_abs() as i128)) } else { MAXC - d }, s)
        }
        _ => free,
    }
}

#[derive(rkyv::Archive, rkyv::Serialize, rkyv::Deserialize)]
#[archive(check_bytes)]
struct Holder {
    tag: u8,
    amount: Decimal,
    other: Decimal,
}

fn ord_name(o: Ordering) -> &'static str {
    match o {
        Ordering::Less => "Less",
        Ordering::Equal => "Equal",
        Ordering::Greater => "Greater",
    }
}

/// what the child must print for (a, b, c)
fn containers_expected(a: D, b: D, c: D) -> String {
    let r = |d: D| format!("{} {}", d.c, d.s);
    let cmp = |x: D, y: D| ord_name(exact_cmp((x.c, x.s), (y.c, y.s)));
    format!(
        "vec: {} | {} | {}; cmp: {} {} {}; mixed: {} {}; holder: {} | {}; cmp: {}",
        r(a), r(b), r(c), cmp(a, b), cmp(b, c), cmp(a, c), cmp(a, b), cmp(c, b), r(a), r(b), cmp(a, b)
    )
}

/// `vcheck c08-exec`: archive the case's values inside containers, validate, read back, compare
pub fn exec_child() {
    let mut input = String::new();
    std::io::Read::read_to_string(&mut std::io::stdin(), &mut input).expect("read case");
    let case: Case = serde_json::from_str(&input).expect("parse case");
    let (a, b, c) = match case {
        Case::Containers { a, b, c } => (a, b, c),
        _ => return,
    };
    let r = |d: &ArchivedDecimal| format!("{} {}", d.coefficient(), d.n_frac_digits());
    let v = vec![a.dec(), b.dec(), c.dec()];
    let bytes = rkyv::to_bytes::<_, 256>(&v).expect("to_bytes");
    let av = rkyv::check_archived_root::<Vec<Decimal>>(&bytes[..]).expect("check_archived_root::<Vec<Decimal>>");
    let back: Vec<Decimal> = av.deserialize(&mut rkyv::Infallible).expect("deserialize");
    assert!(back.iter().zip(v.iter()).all(|(x, y)| x.coefficient() == y.coefficient() && x.n_frac_digits() == y.n_frac_digits()), "Vec round trip");
    let h = Holder { tag: 7, amount: a.dec(), other: b.dec() };
    let hb = rkyv::to_bytes::<_, 256>(&h).expect("to_bytes");
    let ah = rkyv::check_archived_root::<Holder>(&hb[..]).expect("check_archived_root::<Holder>");
    let hback: Holder = ah.deserialize(&mut rkyv::Infallible).expect("deserialize");
    assert!(hback.tag == 7 && hback.amount.coefficient() == a.c && hback.other.n_frac_digits() == b.s, "struct round trip");
    println!(
        "vec: {} | {} | {}; cmp: {} {} {}; mixed: {} {}; holder: {} | {}; cmp: {}",
        r(&av[0]), r(&av[1]), r(&av[2]),
        ord_name(av[0].cmp(&av[1])), ord_name(av[1].cmp(&av[2])), ord_name(av[0].cmp(&av[2])),
        ord_name(v[0].partial_cmp(&av[1]).expect("partial_cmp")), ord_name(av[2].partial_cmp(&v[1]).expect("partial_cmp")),
        r(&ah.amount), r(&ah.other), ord_name(ah.amount.cmp(&ah.other))
    );
}

fn containers_in_child(case: &Case) -> Result<String, String> {
    use std::io::Write;
    use std::process::{Command, Stdio};
    let exe = std::env::current_exe().expect("current exe");
    let mut last = String::new();
    // a child that dies is retried: only a death that repeats is attributed to the code under test
    for _ in 0..3 {
        let mut child = Command::new(&exe).arg("c08-exec").stdin(Stdio::piped()).stdout(Stdio::piped()).stderr(Stdio::piped()).spawn().expect("spawn c08-exec");
        child.stdin.take().unwrap().write_all(serde_json::to_string(case).unwrap().as_bytes()).expect("write case");
        let out = child.wait_with_output().expect("wait c08-exec");
        if out.status.success() {
            return Ok(String::from_utf8_lossy(&out.stdout).trim().to_string());
        }
        let err = String::from_utf8_lossy(&out.stderr);
        last = format!("{} - {}", out.status, err.lines().filter(|l| !l.trim().is_empty() && !l.starts_with("  ") && !l.starts_with("note:") && !l.starts_with("stack")).take(3).collect::<Vec<_>>().join(" / "));
    }
    Err(last)
}

impl Prop for C08 {
    type Case = Case;
    fn id(&self) -> &'static str {
        "C08"
    }
    fn rule(&self) -> String {
        "Generated: triples (a, b, c) of Decimal representations - independent, same value at different scales (c*10^k), adjacent values (+-1 ulp at the finer scale), pairs whose scale alignment overflows i128 with every sign combination including zero - and (Decimal, integer) pairs for all 9 integer types incl. integers whose scaling by 10^p overflows and integers floor(B/10^s)+-1 for machine boundaries B (2^127-1, 2^64, 2^63, 2^32, 2^31) against the same integer written with s fractional zeros +-1 ulp. \
         For every ordered pair: ==, !=, <, <=, >, >=, partial_cmp (never None), cmp (never panics), min, max against the sign of a*10^q - b*10^p in big integers; laws on the triple (reflexive, antisymmetric, transitive, cmp consistent with ==). \
         rkyv: to_bytes -> check_archived_root -> deserialize is the identity on (coefficient, scale); Archived/Archived and Archived/Decimal comparisons in both orders (all six operators) equal the comparison of the originals; the same for values archived inside a Vec<Decimal> and inside a struct behind a u8 field (validated with check_archived_root, in a child process). \
         Non-trivial: the two operands carry different scales. Distinct: hash of the case."
            .into()
    }
    fn assumptions(&self) -> Vec<String> {
        vec![
            "operands |coefficient| <= 2^127-1; i128 integers |i| <= 2^127-1".into(),
            "rkyv checked with the derived (non-packed) Archive impl of the default feature set; the packed manual impl is exercised by C20's packed build".into(),
        ]
    }
    fn cases(&self, tier: Tier) -> u64 {
        match tier {
            Tier::Quick => 1 << 19,
            Tier::Thorough => 1 << 24,
        }
    }
    fn strategy(&self, _tier: Tier) -> BoxedStrategy<Case> {
        prop_oneof![
            384 => (arb_d(), arb_d(), arb_d(), 0u8..5, 0u8..5, 0u8..=18, 0u8..=18, -2i128..=2, -2i128..=2).prop_map(|(a, fb, fc, kb, kc, k1, k2, d1, d2)| {
                let b = related(a, kb, k1, d1, fb);
                let c = related(b, kc, k2, d2, fc);
                Case::Tri { a, b, c }
            }),
            2 => (arb_d(), arb_d(), 0u8..5, 0u8..=18, -2i128..=2, arb_d()).prop_map(|(a, fb, kb, k1, d1, c)| {
                let b = related(a, kb, k1, d1, fb);
                Case::Containers { a, b, c }
            }),
            192 => (arb_d(), arb_int_full()).prop_map(|(d, i)| Case::Int { d, i }),
            // integer equal / adjacent to the decimal's value, or overflowing when scaled
            192 => (arb_int(), 0u8..=18, -1i128..=1, 0u8..3).prop_map(|(i, s, off, kind)| {
                let d = match kind {
                    0 => match i.v.checked_mul(10i128.pow(s as u32)).and_then(|c| c.checked_add(off)) {
                        Some(c) if c != i128::MIN => D::new(c, s),
                        _ => D::new(if i.v < 0 { -MAXC } else { MAXC }, s),
                    },
                    1 => D::new(if off < 0 { -MAXC } else { MAXC }, s),
                    _ => D::new(off, s),
                };
                Case::Int { d, i }
            }),
            // the integer sits exactly where its scaling by 10^s reaches a machine boundary:
            // i = floor(B / 10^s) + d0 for B in {2^127-1, 2^64, 2^64-1, 2^63, 2^63-1, 2^32, 2^31},
            // the Decimal is i * 10^s + e at scale s (the same integer written with s fractional zeros, +-1 ulp)
            128 => (0u8..7, 1u8..=18, -1i128..=1, -1i128..=1, any::<bool>(), 0u8..9).prop_map(|(b, s, d0, e, neg, tyk)| {
                let bound: i128 = match b {
                    0 => MAXC,
                    1 => 1i128 << 64,
                    2 => (1i128 << 64) - 1,
                    3 => 1i128 << 63,
                    4 => (1i128 << 63) - 1,
                    5 => 1i128 << 32,
                    _ => 1i128 << 31,
                };
                let p = 10i128.pow(s as u32);
                let mut iv = bound / p + d0;
                if neg {
                    iv = -iv;
                }
                // an integer type that can hold the value: the requested one if it fits, else i128
                let (lo, hi) = int_range(tyk);
                let ty = if iv >= lo && iv <= hi { tyk } else { 8 };
                let d = match iv.checked_mul(p).and_then(|c| c.checked_add(e)) {
                    Some(c) if c != i128::MIN && c.unsigned_abs() <= MAXC as u128 => D::new(c, s),
                    _ => D::new(if iv < 0 { -MAXC } else { MAXC }, s),
                };
                Case::Int { d, i: I { ty, v: iv } }
            }),
        ]
        .boxed()
    }
    fn mandatory_labels(&self, _tier: Tier) -> Vec<&'static str> {
        vec!["equal-diff-scale", "align-overflow", "adjacent", "scale-diff", "int", "int-scale-overflow", "less", "greater", "equal", "rkyv-containers"]
    }
    fn builtin_corpus(&self) -> Vec<Case> {
        vec![
            Case::Tri { a: D::new(MAXC, 0), b: D::new(MAXC, 18), c: D::new(-MAXC, 1) },
            Case::Tri { a: D::new(0, 0), b: D::new(0, 18), c: D::new(-MAXC, 0) },
            Case::Tri { a: D::new(0, 18), b: D::new(MAXC, 0), c: D::new(-1, 18) },
            Case::Tri { a: D::new(34, 1), b: D::new(3400, 3), c: D::new(3401, 3) },
            Case::Containers { a: D::new(34, 1), b: D::new(3400, 3), c: D::new(-3401, 3) },
            Case::Containers { a: D::new(MAXC, 0), b: D::new(-MAXC, 18), c: D::new(0, 7) },
            Case::Int { d: D::new(MAXC, 18), i: I { ty: 6, v: u64::MAX as i128 } },
            Case::Int { d: D::new(-MAXC, 18), i: I { ty: 7, v: i64::MIN as i128 } },
            Case::Int { d: D::new(0, 18), i: I { ty: 8, v: -MAXC } },
        ]
    }

    fn check(&self, case: &Case, ctx: &mut Ctx) {
        let _ambient = ambient_mode(case, ctx);
        match *case {
            Case::Containers { a, b, c } => {
                ctx.label("rkyv-containers");
                ctx.nontrivial();
                ctx.sub();
                let want = containers_expected(a, b, c);
                match containers_in_child(case) {
                    Ok(got) if got == want => {}
                    Ok(got) => ctx.fail("C08/rkyv", format!("{case:?}: archived inside a Vec / a struct: expected [{want}], observed [{got}]")),
                    Err(e) => ctx.fail("C08/rkyv-validation-aborts", format!("{case:?}: archiving the values inside a Vec<Decimal> and a struct {{ u8, Decimal, Decimal }}, validating and reading them back ended the process: {e}")),
                }
            }
            Case::Tri { a, b, c } => {
                let v = [a, b, c];
                let mut obs = [[Ordering::Equal; 3]; 3];
                for i in 0..3 {
                    for j in 0..3 {
                        let (x, y) = (v[i], v[j]);
                        let want = exact_cmp((x.c, x.s), (y.c, y.s));
                        if i < j {
                            if x.s != y.s {
                                ctx.label("scale-diff");
                                ctx.nontrivial();
                                if want == Ordering::Equal {
                                    ctx.label("equal-diff-scale");
                                }
                            }
                            let m = x.s.max(y.s);
                            let xa = x.big().mul(&Big::pow10((m - x.s) as u32));
                            let ya = y.big().mul(&Big::pow10((m - y.s) as u32));
                            if !in_i128(&xa) || !in_i128(&ya) {
                                ctx.label("align-overflow");
                            }
                            if xa.sub(&ya).abs() == Big::one() {
                                ctx.label("adjacent");
                            }
                            ctx.label(match want {
                                Ordering::Less => "less",
                                Ordering::Equal => "equal",
                                Ordering::Greater => "greater",
                            });
                        }
                        obs[i][j] = self.pair(x, y, want, ctx, case);
                    }
                }
                // laws on what was observed
                for i in 0..3 {
                    if obs[i][i] != Ordering::Equal {
                        ctx.fail("C08/not-reflexive", format!("{case:?}: cmp(v{i}, v{i}) = {:?}", obs[i][i]));
                    }
                    for j in 0..3 {
                        if obs[i][j] != obs[j][i].reverse() {
                            ctx.fail("C08/not-antisymmetric", format!("{case:?}: cmp(v{i},v{j}) = {:?} but cmp(v{j},v{i}) = {:?}", obs[i][j], obs[j][i]));
                        }
                        for k in 0..3 {
                            if obs[i][j] != Ordering::Greater && obs[j][k] != Ordering::Greater && obs[i][k] == Ordering::Greater {
                                ctx.fail("C08/not-transitive", format!("{case:?}: v{i} <= v{j} <= v{k} but v{i} > v{k}"));
                            }
                        }
                    }
                }
                self.rkyv(a, b, ctx, case);
            }
            Case::Int { d, i } => {
                ctx.label("int");
                let want = exact_cmp((d.c, d.s), (i.v, 0));
                if !in_i128(&Big::from_i128(i.v).mul(&Big::pow10(d.s as u32))) {
                    ctx.label("int-scale-overflow");
                }
                if d.s > 0 {
                    ctx.nontrivial();
                }
                ctx.label(match want {
                    Ordering::Less => "less",
                    Ordering::Equal => "equal",
                    Ordering::Greater => "greater",
                });
                let x = d.dec();
                let res: Vec<(&'static str, Result<bool, String>, bool)> = with_int!(i, iv => vec![
                    ("d == i", catch(|| x == iv), want == Ordering::Equal),
                    ("d != i", catch(|| x != iv), want != Ordering::Equal),
                    ("d < i", catch(|| x < iv), want == Ordering::Less),
                    ("d <= i", catch(|| x <= iv), want != Ordering::Greater),
                    ("d > i", catch(|| x > iv), want == Ordering::Greater),
                    ("d >= i", catch(|| x >= iv), want != Ordering::Less),
                    ("d.partial_cmp(i)", catch(|| x.partial_cmp(&iv) == Some(want)), true),
                    ("i == d", catch(|| iv == x), want == Ordering::Equal),
                    ("i != d", catch(|| iv != x), want != Ordering::Equal),
                    ("i < d", catch(|| iv < x), want == Ordering::Greater),
                    ("i <= d", catch(|| iv <= x), want != Ordering::Less),
                    ("i > d", catch(|| iv > x), want == Ordering::Less),
                    ("i >= d", catch(|| iv >= x), want != Ordering::Greater),
                    ("i.partial_cmp(d)", catch(|| iv.partial_cmp(&x) == Some(want.reverse())), true),
                ]);
                for (name, got, exp) in res {
                    ctx.sub();
                    ctx.note(|| format!("{name}: expected {exp}, observed {got:?} (exact order d vs i: {want:?})"));
                    match got {
                        Ok(g) if g == exp => {}
                        Ok(g) => ctx.fail("C08/int-compare-wrong", format!("{case:?} {name} = {g}; exact order of d vs i is {want:?}")),
                        Err(p) => ctx.fail("C08/panics", format!("{case:?} {name} panicked: {p}")),
                    }
                }
            }
        }
    }
}

impl C08 {
    /// all comparison operators on an ordered pair; returns the observed cmp
    fn pair(&self, x: D, y: D, want: Ordering, ctx: &mut Ctx, case: &Case) -> Ordering {
        let (a, b) = (x.dec(), y.dec());
        let res: Vec<(&'static str, Result<bool, String>, bool)> = vec![
            ("==", catch(|| a == b), want == Ordering::Equal),
            ("!=", catch(|| a != b), want != Ordering::Equal),
            ("<", catch(|| a < b), want == Ordering::Less),
            ("<=", catch(|| a <= b), want != Ordering::Greater),
            (">", catch(|| a > b), want == Ordering::Greater),
            (">=", catch(|| a >= b), want != Ordering::Less),
            ("partial_cmp", catch(|| a.partial_cmp(&b) == Some(want)), true),
            ("cmp", catch(|| a.cmp(&b) == want), true),
            ("min", catch(|| {
                let m = a.min(b);
                let pick = if want == Ordering::Greater { y } else { x };
                // by value: the smaller one (either representation when equal)
                exact_cmp((m.coefficient(), m.n_frac_digits()), (pick.c, pick.s)) == Ordering::Equal
            }), true),
            ("max", catch(|| {
                let m = a.max(b);
                let pick = if want == Ordering::Greater { x } else { y };
                exact_cmp((m.coefficient(), m.n_frac_digits()), (pick.c, pick.s)) == Ordering::Equal
            }), true),
            // the same relations through references and through the std entry points built on them
            ("&a == &b", catch(|| &a == &b), want == Ordering::Equal),
            ("&a < &b", catch(|| &a < &b), want == Ordering::Less),
            ("&a >= &b", catch(|| &a >= &b), want != Ordering::Less),
            ("PartialOrd::le(&a, &b)", catch(|| PartialOrd::le(&a, &b)), want != Ordering::Greater),
            ("std::cmp::min/max", catch(|| {
                let (lo, hi) = (std::cmp::min(a, b), std::cmp::max(a, b));
                exact_cmp((lo.coefficient(), lo.n_frac_digits()), (hi.coefficient(), hi.n_frac_digits())) != Ordering::Greater
                    && exact_cmp((lo.coefficient(), lo.n_frac_digits()), if want == Ordering::Greater { (y.c, y.s) } else { (x.c, x.s) }) == Ordering::Equal
            }), true),
            ("sort / sort_unstable of [a, b]", catch(|| {
                let mut v = [a, b];
                v.sort();
                let mut u = [b, a];
                u.sort_unstable();
                let ok = |w: &[Decimal; 2]| exact_cmp((w[0].coefficient(), w[0].n_frac_digits()), (w[1].coefficient(), w[1].n_frac_digits())) != Ordering::Greater;
                ok(&v) && ok(&u)
            }), true),
            ("iter().max() / iter().min()", catch(|| {
                let v = [a, b];
                let (mx, mn) = (*v.iter().max().unwrap(), *v.iter().min().unwrap());
                let hi = if want == Ordering::Greater { x } else { y };
                let lo = if want == Ordering::Greater { y } else { x };
                exact_cmp((mx.coefficient(), mx.n_frac_digits()), (hi.c, hi.s)) == Ordering::Equal && exact_cmp((mn.coefficient(), mn.n_frac_digits()), (lo.c, lo.s)) == Ordering::Equal
            }), true),
            ("a.cmp(&a) on one object", catch(|| a.cmp(&a) == Ordering::Equal && a.partial_cmp(&a) == Some(Ordering::Equal) && PartialEq::eq(&a, &a)), true),
        ];
        for (name, got, exp) in res {
            ctx.sub();
            ctx.note(|| format!("{x} {name} {y}: expected {exp}, observed {got:?} (exact order {want:?})"));
            match got {
                Ok(g) if g == exp => {}
                Ok(g) => ctx.fail("C08/compare-wrong", format!("{case:?}: {x} {name} {y} = {g}; exact order is {want:?}")),
                Err(p) => ctx.fail("C08/panics", format!("{case:?}: {x} {name} {y} panicked: {p}")),
            }
        }
        catch(|| a.cmp(&b)).unwrap_or(want)
    }

    fn rkyv(&self, x: D, y: D, ctx: &mut Ctx, case: &Case) {
        let want = exact_cmp((x.c, x.s), (y.c, y.s));
        let r = catch(|| {
            let (a, b) = (x.dec(), y.dec());
            let ba = rkyv::to_bytes::<_, 256>(&a).map_err(|e| format!("to_bytes: {e}"))?;
            let bb = rkyv::to_bytes::<_, 256>(&b).map_err(|e| format!("to_bytes: {e}"))?;
            let aa: &ArchivedDecimal = rkyv::check_archived_root::<Decimal>(&ba[..]).map_err(|e| format!("check_archived_root: {e}"))?;
            let ab: &ArchivedDecimal = rkyv::check_archived_root::<Decimal>(&bb[..]).map_err(|e| format!("check_archived_root: {e}"))?;
            let da: Decimal = aa.deserialize(&mut rkyv::Infallible).map_err(|_| "deserialize".to_string())?;
            let mut bad: Vec<String> = Vec::new();
            if da.coefficient() != x.c || da.n_frac_digits() != x.s {
                bad.push(format!("round trip of {x} gives ({}, {})", da.coefficient(), da.n_frac_digits()));
            }
            if aa.coefficient() != x.c || aa.n_frac_digits() != x.s {
                bad.push(format!("archived fields of {x} are ({}, {})", aa.coefficient(), aa.n_frac_digits()));
            }
            let mut chk = |name: &str, got: bool, exp: bool| {
                if got != exp {
                    bad.push(format!("{name} = {got}, expected {exp}"));
                }
            };
            // the complete operator matrix for the three pairings (each operator is a separate,
            // overridable trait method)
            macro_rules! all_ops {
                ($name:literal, $l:expr, $r:expr) => {
                    chk(concat!($name, " =="), $l == $r, want == Ordering::Equal);
                    chk(concat!($name, " !="), $l != $r, want != Ordering::Equal);
                    chk(concat!($name, " <"), $l < $r, want == Ordering::Less);
                    chk(concat!($name, " <="), $l <= $r, want != Ordering::Greater);
                    chk(concat!($name, " >"), $l > $r, want == Ordering::Greater);
                    chk(concat!($name, " >="), $l >= $r, want != Ordering::Less);
                };
            }
            all_ops!("archived(a) vs archived(b):", *aa, *ab);
            all_ops!("a vs archived(b):", a, *ab);
            all_ops!("archived(a) vs b:", *aa, b);
            all_ops!("&archived(a) vs &archived(b):", aa, ab);
            chk("archived(a).partial_cmp(archived(b))", aa.partial_cmp(ab) == Some(want), true);
            chk("archived(a).cmp(archived(b))", aa.cmp(ab) == want, true);
            chk("a.partial_cmp(archived(b))", a.partial_cmp(ab) == Some(want), true);
            chk("archived(a).partial_cmp(b)", aa.partial_cmp(&b) == Some(want), true);
            chk("PartialOrd::ge(&a, archived(b))", PartialOrd::ge(&a, ab), want != Ordering::Less);
            chk("PartialOrd::le(archived(a), &b)", PartialOrd::le(aa, &b), want != Ordering::Greater);
            chk("archived eq_zero", aa.eq_zero(), x.c == 0);
            chk("archived is_negative", aa.is_negative(), x.c < 0);
            chk("archived is_positive", aa.is_positive(), x.c > 0);
            Ok::<Vec<String>, String>(bad)
        });
        ctx.sub();
        match r {
            Ok(Ok(bad)) => {
                for b in bad {
                    ctx.fail("C08/rkyv", format!("{case:?}: {b} (exact order {want:?})"));
                }
            }
            Ok(Err(e)) => ctx.fail("C08/rkyv-error", format!("{case:?}: {e}")),
            Err(p) => ctx.fail("C08/panics", format!("{case:?}: rkyv path panicked: {p}")),
        }
    }
}
