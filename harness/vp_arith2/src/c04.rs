//! C04 - mul_rounded, div_rounded and quantize round the exact result once.

use vcore::arith::*;
use vcore::common::*;
use vcore::{forms, with_int};
use engine::{Ctx, Prop, Tier};
use fpdec::{DivRounded, MulRounded, Quantize};
use oracle::Big;
use proptest::prelude::*;
use serde::{Deserialize, Serialize};

#[derive(Clone, Copy, Debug, Hash, PartialEq, Eq, Serialize, Deserialize)]
pub enum Opnd {
    Dec(D),
    Int(I),
}

impl Opnd {
    fn q(&self) -> Q {
        match *self {
            Opnd::Dec(d) => d.into(),
            Opnd::Int(i) => i.into(),
        }
    }
}

#[derive(Clone, Copy, Debug, Hash, PartialEq, Eq, Serialize, Deserialize)]
pub enum Op {
    MulRounded,
    DivRounded,
    Quantize,
}

#[derive(Clone, Debug, Hash, PartialEq, Eq, Serialize, Deserialize)]
pub struct Case {
    pub op: Op,
    pub x: Opnd,
    pub y: Opnd,
    pub n: u8,
    pub mode: u8,
}

pub struct C04;

fn arb_n() -> BoxedStrategy<u8> {
    prop_oneof![12 => 0u8..=18, 1 => 19u8..=255, 1 => Just(19u8)].boxed()
}

fn arb_opnd() -> BoxedStrategy<Opnd> {
    prop_oneof![3 => arb_d().prop_map(Opnd::Dec), 1 => arb_int().prop_map(Opnd::Int)].boxed()
}

/// make an int/int pair use the same integer type (only T/T impls exist)
fn same_type(x: Opnd, y: Opnd) -> (Opnd, Opnd) {
    match (x, y) {
        (Opnd::Int(a), Opnd::Int(b)) => {
            let (lo, hi) = int_range(b.ty);
            (Opnd::Int(I { ty: b.ty, v: a.v.clamp(lo, hi) }), y)
        }
        _ => (x, y),
    }
}

/// divisor-scaled branch (p > n + q) with a first-stage remainder and a
/// second-stage tie / near-tie: the double-rounding detector.
fn divisor_scaled() -> BoxedStrategy<Case> {
    (1u8..=18, 0u8..=17, 0u8..=17, any::<u64>(), any::<u32>(), 0u32..=31, -2i128..=2, 0u8..3, any::<bool>(), any::<bool>(), 0u8..8, any::<bool>())
        .prop_map(|(p, q, n, k, d, sh, eps, kind, n1, n2, mode, int_div)| {
            // need p > n + q
            let q = if int_div { 0 } else { q % p };
            let n = n % (p - q); // n + q < p
            let shift = (p - n - q) as u32; // >= 1
            let d = ((d >> sh.min(31)) as i128).max(2);
            let k = (k >> 20) as i128;
            // exact quotient (at n digits) = cx / (cy * 10^shift)
            // kind 0: cx = (2k+1) * cy * 10^shift / 2 + eps   -> tie +- eps  (first stage leaves a remainder when eps != 0)
            // kind 1: cx = k * cy * 10^shift + eps             -> integer +- eps
            // kind 2: cx = (k * 10^shift + 5 * 10^(shift-1)) * cy + eps'  (first-stage quotient ends in ...5 000)
            let unit = Big::from_i128(d).mul(&Big::pow10(shift));
            let cxb = match kind {
                0 => {
                    let (h, _) = unit.mul(&Big::from_i128(2 * k + 1)).divrem_trunc(&Big::from_u64(2));
                    h.add(&Big::from_i128(eps))
                }
                1 => unit.mul(&Big::from_i128(k)).add(&Big::from_i128(eps)),
                _ => {
                    let h = Big::from_i128(k).mul(&Big::pow10(shift)).add(&Big::from_u64(5).mul(&Big::pow10(shift - 1)));
                    h.mul(&Big::from_i128(d)).add(&Big::from_i128(eps.abs() % d))
                }
            };
            let cx = cxb.to_i128().filter(|v| *v != i128::MIN).unwrap_or(12345);
            let x = Opnd::Dec(D::new(if n1 { -cx } else { cx }, p));
            let y = if int_div {
                // clamp d into i32
                Opnd::Int(I { ty: 5, v: (if n2 { -d } else { d }).clamp(i32::MIN as i128, i32::MAX as i128) })
            } else {
                Opnd::Dec(D::new(if n2 { -d } else { d }, q))
            };
            Case { op: Op::DivRounded, x, y, n, mode }
        })
        .boxed()
}

/// "unit-like" second operands: +-m * 10^z at scale s with m in {1, 2, 5, 25, 125, 3, 7} (mostly 1) -
/// the quanta and divisors people actually write (0.01, -0.01, 0.05, 1, -1, 10, 0.25, ...), as a
/// Decimal (with or without trailing zeros) or as an integer; the first operand human-scale or arbitrary
fn unit_second_operand() -> BoxedStrategy<Case> {
    (
        prop_oneof![6 => Just(1i128), 1 => Just(2i128), 1 => Just(5), 1 => Just(25), 1 => Just(125), 1 => Just(3), 1 => Just(7)],
        0u32..=3,
        0u8..=18,
        any::<bool>(),
        prop_oneof![2 => arb_d(), 3 => (-10_000_000i128..=10_000_000, 0u8..=9).prop_map(|(c, s)| D::new(c, s))],
        0u8..3,
        0u8..=4,
        arb_n(),
        0u8..8,
    )
        .prop_map(|(m, z, sc, neg, x, o, as_int, n, mode)| {
            let c = m * 10i128.pow(z);
            let c = if neg { -c } else { c };
            let op = match o { 0 => Op::Quantize, 1 => Op::DivRounded, _ => Op::MulRounded };
            // integer form of the unit (scale 0) for quantize / div_rounded in one case out of five
            let y = if as_int == 0 && op != Op::MulRounded {
                let ty = if neg { [1u8, 3, 5, 7, 8][(m as usize + z as usize) % 5] } else { ((m as usize + z as usize + sc as usize) % 9) as u8 };
                let (lo, hi) = int_range(ty);
                Opnd::Int(I { ty, v: c.clamp(lo, hi) })
            } else {
                Opnd::Dec(D::new(c, sc))
            };
            Case { op, x: Opnd::Dec(x), y, n, mode }
        })
        .boxed()
}

/// results exactly at / next to +-(2^127-1): mul_rounded with cy ~ (MAX+d)*10^(p+q-n)/cx,
/// div_rounded with cx ~ (MAX+d)*cy/10^(n+q-p), and MAX * (non-normalised one)
fn result_edge() -> BoxedStrategy<Case> {
    (0u8..=18, 0u8..=18, 0u8..=18, arb_magnitude(), -3i128..=3, 0u8..=4, 0u8..3, any::<bool>(), any::<bool>(), 0u8..8)
        .prop_map(|(p, q, n, c, d, frac, kind, n1, n2, mode)| {
            let c = c.max(1);
            let t = Big::from_i128(MAXC).add(&Big::from_i128(d)).mul(&Big::from_u64(4)).add(&Big::from_u64(frac as u64));
            let pick = |b: Big| b.to_i128().filter(|v| *v != i128::MIN && *v > 0).unwrap_or(MAXC);
            let (op, x, y) = match kind {
                0 => {
                    // mul_rounded: cx * cy / 10^(p+q-n) ~ MAX + d + frac/4
                    let s = (p + q) as i32 - n as i32;
                    let num = if s >= 0 { t.mul(&Big::pow10(s as u32)) } else { t };
                    let (cy, _) = num.divrem_trunc(&Big::from_i128(c).mul(&Big::from_u64(4)));
                    (Op::MulRounded, D::new(c, p), D::new(pick(cy), q))
                }
                1 => {
                    // div_rounded: cx * 10^(n+q-p) / cy ~ MAX + d + frac/4
                    let e = n as i32 + q as i32 - p as i32;
                    let (num, den) = if e >= 0 { (t.mul(&Big::from_i128(c)), Big::pow10(e as u32).mul(&Big::from_u64(4))) } else { (t.mul(&Big::from_i128(c)).mul(&Big::pow10((-e) as u32)), Big::from_u64(4)) };
                    let (cx, _) = num.divrem_trunc(&den);
                    (Op::DivRounded, D::new(pick(cx), p), D::new(c, q))
                }
                _ => {
                    // MAX - d times / divided by a one written with q fractional digits
                    let one = D::new(10i128.pow(q as u32), q);
                    (if frac % 2 == 0 { Op::MulRounded } else { Op::DivRounded }, D::new(MAXC - d.abs(), p), one)
                }
            };
            let x = D::new(if n1 { -x.c } else { x.c }, x.s);
            let y = D::new(if n2 { -y.c } else { y.c }, y.s);
            Case { op, x: Opnd::Dec(x), y: Opnd::Dec(y), n: if kind == 2 { p } else { n }, mode }
        })
        .boxed()
}

/// ties for div_rounded at n digits on the equal / dividend-scaled branches
fn div_tie() -> BoxedStrategy<Case> {
    (0u8..=18, 0u8..=18, 0u8..=18, any::<u64>(), any::<u64>(), 0u32..=63, 0u32..=63, -1i128..=1, any::<bool>(), any::<bool>(), 0u8..8)
        .prop_map(|(p, q, n, r, m, sh1, sh2, off, n1, n2, mode)| {
            let e = n as i32 + q as i32 - p as i32;
            let odd = ((r >> sh1) as i128) | 1;
            let g = ((m >> sh2) as i128).max(1);
            // x/y*10^n = cx*10^e/cy ; e >= 0: cy = 2*g*10^e, cx = odd*g ; e < 0: cy = 2*g, cx = odd*g*10^-e
            let (cx, cy) = if e >= 0 {
                match Big::from_i128(2 * g.min(1 << 60)).mul(&Big::pow10(e as u32)).to_i128() {
                    Some(cy) if cy > 0 => (odd.checked_mul(g.min(1 << 60)).unwrap_or(odd), cy),
                    _ => (odd, 2 * 10i128.pow(e.min(36) as u32)),
                }
            } else {
                let g = g.min(1 << 40);
                (
                    odd.checked_mul(g).and_then(|v| v.checked_mul(10i128.pow((-e) as u32))).unwrap_or(5 * 10i128.pow((-e) as u32 - 1)),
                    if odd.checked_mul(g).and_then(|v| v.checked_mul(10i128.pow((-e) as u32))).is_some() { 2 * g } else { 1 },
                )
            };
            Case {
                op: Op::DivRounded,
                x: Opnd::Dec(D::new((if n1 { -cx } else { cx }) + off, p)),
                y: Opnd::Dec(D::new(if n2 { -cy } else { cy }, q)),
                n,
                mode,
            }
        })
        .boxed()
}

/// mul_rounded ties / near-ties and wide products
fn mul_tie() -> BoxedStrategy<Case> {
    (0u8..=18, 0u8..=18, 0u8..=35, any::<u64>(), any::<u64>(), 0u32..=63, 0u32..=63, 0u8..=36, 0u8..=36, -1i128..=1, 0u8..4, 0u8..8)
        .prop_map(|(p, q, n, r1, r2, sh1, sh2, e2, e5, off, signs, mode)| {
            let (n1, n2) = (signs & 1 == 1, signs & 2 == 2);
            let pq = p + q;
            let n = if pq == 0 { 0 } else { n % pq.min(19) }; // n < p+q where possible, n <= 18
            let s = (pq as i32 - n as i32).max(1) as u32;
            let a2 = (e2 as u32).min(s - 1);
            let a5 = (e5 as u32).min(s);
            let fa = Big::pow2(a2).mul(&pow5(a5));
            let fb = Big::pow2(s - 1 - a2).mul(&pow5(s - a5));
            let o1 = ((r1 >> sh1) as i128) | 1;
            let o2 = ((r2 >> sh2) as i128) | 1;
            let cx = Big::from_i128(o1).mul(&fa).to_i128().filter(|v| *v != i128::MIN).unwrap_or(o1) + off;
            let cy = Big::from_i128(o2).mul(&fb).to_i128().filter(|v| *v != i128::MIN).unwrap_or(o2);
            Case {
                op: Op::MulRounded,
                x: Opnd::Dec(D::new(if n1 { -cx } else { cx }, p)),
                y: Opnd::Dec(D::new(if n2 { -cy } else { cy }, q)),
                n,
                mode,
            }
        })
        .boxed()
}

fn pow5(k: u32) -> Big {
    let mut r = Big::one();
    for _ in 0..k {
        r = r.mul(&Big::from_u64(5));
    }
    r
}

/// quantize with x an exact half-multiple (or multiple +- eps) of the quantum
fn quant_half() -> BoxedStrategy<Case> {
    (arb_opnd(), any::<u32>(), 0u8..3, -1i128..=1, any::<bool>(), 0u8..8, 0u8..=6)
        .prop_map(|(qn, k, kind, eps, neg, mode, extra)| {
            let qq = qn.q();
            let k = (k >> 8) as i128;
            // x = (k + 1/2) * q  (kind 0), k * q (kind 1), free (kind 2)  expressed at scale q.s + extra
            let qs = qq.s;
            let xs = (qs + 1 + extra).min(18);
            let lift = 10i128.pow((xs - qs) as u32);
            let base = match kind {
                0 => Big::from_i128(qq.c).mul(&Big::from_i128(2 * k + 1)).mul(&Big::from_i128(lift / 2)),
                _ => Big::from_i128(qq.c).mul(&Big::from_i128(k)).mul(&Big::from_i128(lift)),
            };
            let cx = base.add(&Big::from_i128(eps)).to_i128().filter(|v| *v != i128::MIN).unwrap_or(k);
            Case { op: Op::Quantize, x: Opnd::Dec(D::new(if neg { -cx } else { cx }, xs)), y: qn, n: 0, mode }
        })
        .boxed()
}

macro_rules! rforms {
    ($tr:ident :: $m:ident, $a:expr, $b:expr, $n:expr) => {{
        let a = $a;
        let b = $b;
        let n = $n;
        vec![
            ("a op b", op(|| $tr::$m(a, b, n))),
            ("&a op b", op(|| $tr::$m(&a, b, n))),
            ("a op &b", op(|| $tr::$m(a, &b, n))),
            ("&a op &b", op(|| $tr::$m(&a, &b, n))),
        ]
    }};
}

impl Prop for C04 {
    type Case = Case;
    fn id(&self) -> &'static str {
        "C04"
    }
    fn rule(&self) -> String {
        "Generated: (operation in {mul_rounded, div_rounded, quantize}, x, y, n, thread-default mode); operand combinations Decimal/Decimal, Decimal/T, T/Decimal, T/T (9 integer types), \
         n in 0..=18 plus 19..=255 for the rejection clause; branch-directed div_rounded cases: equal scales, dividend-scaled narrow and wide, divisor-scaled (p > n+q) with first-stage remainder and second-stage tie/near-tie (double-rounding detector), \
         ties at n digits for div_rounded and mul_rounded, quantize with x an exact half-multiple / multiple / near-multiple of a quantum of either sign, unit-like second operands (+-m*10^z as Decimal or integer), results exactly at +-(2^127-1), wide-division-path pairs; follow-up cases repeat an operand of the previous case. \
         Oracle: one exact rational rounded once by the mode definitions; quantize = R_m(x/q)*q by value (for a negative quantum under Ceiling/Floor both readings are accepted, but the same quantum written with another number of trailing zeros or as an integer must select the same multiple). \
         Non-trivial: rounding discarded something, or divisor-scaled branch, or wide intermediate, or n > 18. Distinct: hash of the case."
            .into()
    }
    fn assumptions(&self) -> Vec<String> {
        vec![
            "operands |coefficient| <= 2^127-1; i128 integers |i| <= 2^127-1".into(),
            "a zero result may carry any number of fractional digits <= 18".into(),
            "quantize: value compared, representation free; negative quantum under Ceiling/Floor accepts either reading".into(),
            "quantize whose intermediate quotient or product exceeds i128: signal or the exact value accepted".into(),
        ]
    }
    fn cases(&self, tier: Tier) -> u64 {
        match tier {
            Tier::Quick => 1 << 20,
            Tier::Thorough => 1 << 25,
        }
    }
    fn strategy(&self, _tier: Tier) -> BoxedStrategy<Case> {
        prop_oneof![
            4 => (arb_opnd(), arb_opnd(), arb_n(), 0u8..8).prop_map(|(x, y, n, mode)| {
                let (x, y) = same_type(x, y);
                Case { op: Op::DivRounded, x, y, n, mode }
            }),
            2 => (arb_d(), arb_d(), arb_n(), 0u8..8).prop_map(|(x, y, n, mode)| Case { op: Op::MulRounded, x: Opnd::Dec(x), y: Opnd::Dec(y), n, mode }),
            2 => (arb_opnd(), arb_opnd(), 0u8..8).prop_map(|(x, y, mode)| {
                let (x, y) = same_type(x, y);
                Case { op: Op::Quantize, x, y, n: 0, mode }
            }),
            2 => (arb_related_pair(), 0u8..3, arb_n(), 0u8..8).prop_map(|((x, y), o, n, mode)| Case {
                op: match o { 0 => Op::MulRounded, 1 => Op::DivRounded, _ => Op::Quantize },
                x: Opnd::Dec(x), y: Opnd::Dec(y), n, mode,
            }),
            2 => (arb_word_pair(), arb_word_int(), 0u8..4, 0u8..3, arb_n(), 0u8..8).prop_map(|((x, y), i, k, o, n, mode)| {
                let (xo, yo) = match k {
                    0 => (Opnd::Dec(x), Opnd::Dec(y)),
                    1 => (Opnd::Dec(x), Opnd::Int(i)),
                    2 => (Opnd::Int(i), Opnd::Dec(y)),
                    _ => (Opnd::Int(I { ty: i.ty, v: x.c.clamp(int_range(i.ty).0, int_range(i.ty).1) }), Opnd::Int(i)),
                };
                Case { op: match o { 0 => Op::MulRounded, 1 => Op::DivRounded, _ => Op::Quantize }, x: xo, y: yo, n, mode }
            }),
            3 => (arb_wide_dec_pair(), 0u8..2, arb_n(), 0u8..8).prop_map(|((x, y), o, n, mode)| Case {
                op: if o == 0 { Op::MulRounded } else { Op::DivRounded },
                x: Opnd::Dec(x), y: Opnd::Dec(y), n, mode,
            }),
            3 => result_edge(),
            3 => unit_second_operand(),
            4 => divisor_scaled(),
            3 => div_tie(),
            3 => mul_tie(),
            3 => quant_half(),
        ]
        .boxed()
    }
    fn mandatory_labels(&self, _tier: Tier) -> Vec<&'static str> {
        vec![
            "div:equal", "div:dividend-scaled", "div:divisor-scaled", "div:wide", "div:tie", "div:rounded", "n>18",
            "mul:tie", "mul:rounded", "mul:wide", "quant:tie", "quant:rounded", "quant:neg-quantum", "quant:neg-quantum:representations",
            "D/D", "D/T", "T/D", "T/T", "zero-divisor",
        ]
    }
    fn builtin_corpus(&self) -> Vec<Case> {
        let dd = |c, s| Opnd::Dec(D::new(c, s));
        vec![
            // D9: double rounding in the divisor-scaled branch
            Case { op: Op::DivRounded, x: dd(151, 2), y: dd(3, 0), n: 0, mode: 5 },
            Case { op: Op::DivRounded, x: dd(301, 2), y: Opnd::Int(I { ty: 5, v: 3 }), n: 0, mode: 1 },
            Case { op: Op::Quantize, x: dd(151, 2), y: dd(3, 0), n: 0, mode: 5 },
            // D10: n > 18 must be rejected for integer operands as well
            Case { op: Op::DivRounded, x: Opnd::Int(I { ty: 5, v: 1 }), y: Opnd::Int(I { ty: 5, v: 3 }), n: 30, mode: 5 },
            Case { op: Op::DivRounded, x: Opnd::Int(I { ty: 5, v: 1 }), y: Opnd::Int(I { ty: 5, v: 3 }), n: 60, mode: 5 },
            Case { op: Op::DivRounded, x: dd(1, 0), y: Opnd::Int(I { ty: 0, v: 3 }), n: 19, mode: 5 },
            Case { op: Op::DivRounded, x: Opnd::Int(I { ty: 7, v: 1 }), y: dd(3, 0), n: 255, mode: 5 },
        ]
    }

    fn mix(&self, prev: &Case, cur: &Case) -> Vec<Case> {
        // the current left operand with the previous right operand, and the other way round
        // (integer/integer forms exist for one common type only: the strategy never mixes types)
        let ok = |c: &Case| !matches!((c.x, c.y), (Opnd::Int(a), Opnd::Int(b)) if a.ty != b.ty);
        vec![Case { y: prev.y.clone(), ..cur.clone() }, Case { x: prev.x.clone(), ..cur.clone() }].into_iter().filter(ok).collect()
    }
    fn check(&self, case: &Case, ctx: &mut Ctx) {
        let md = set_mode(case.mode);
        ctx.label(mode_label(md));
        let (xq, yq) = (case.x.q(), case.y.q());
        let n = case.n;
        let combo = match (case.x, case.y) {
            (Opnd::Dec(_), Opnd::Dec(_)) => "D/D",
            (Opnd::Dec(_), Opnd::Int(_)) => "D/T",
            (Opnd::Int(_), Opnd::Dec(_)) => "T/D",
            (Opnd::Int(_), Opnd::Int(_)) => "T/T",
        };
        ctx.label(combo);
        let mut outs: Vec<(&'static str, Out)> = Vec::new();
        let exps: Vec<Exp>;
        let opname;
        match case.op {
            Op::MulRounded => {
                opname = "mul_rounded";
                let (x, y) = match (case.x, case.y) {
                    (Opnd::Dec(x), Opnd::Dec(y)) => (x, y),
                    _ => return, // only Decimal x Decimal exists
                };
                let (e, info) = exp_mul_rounded(xq, yq, n, md);
                if n > 18 {
                    ctx.label("n>18");
                    ctx.nontrivial();
                }
                if info.tie {
                    ctx.label("mul:tie");
                }
                if info.inexact {
                    ctx.label("mul:rounded");
                    ctx.nontrivial();
                }
                if info.wide {
                    ctx.label("mul:wide");
                    ctx.nontrivial();
                }
                if info.overflow {
                    ctx.label("mul:overflow");
                }
                exps = vec![e];
                outs.extend(rforms!(MulRounded::mul_rounded, x.dec(), y.dec(), n));
            }
            Op::DivRounded => {
                opname = "div_rounded";
                let (e, info) = exp_div_rounded(xq, yq, n, md);
                if n > 18 {
                    ctx.label("n>18");
                    ctx.nontrivial();
                } else if yq.is_zero() {
                    ctx.label("zero-divisor");
                } else {
                    let shift = n as i32 + yq.s as i32;
                    match (xq.s as i32).cmp(&shift) {
                        std::cmp::Ordering::Equal => ctx.label("div:equal"),
                        std::cmp::Ordering::Less => ctx.label("div:dividend-scaled"),
                        std::cmp::Ordering::Greater => {
                            ctx.label("div:divisor-scaled");
                            ctx.nontrivial();
                        }
                    }
                    if info.tie {
                        ctx.label("div:tie");
                    }
                    if info.inexact {
                        ctx.label("div:rounded");
                        ctx.nontrivial();
                    }
                    if info.wide {
                        ctx.label("div:wide");
                        ctx.nontrivial();
                    }
                    if info.overflow {
                        ctx.label("div:overflow");
                    }
                }
                exps = vec![e];
                match (case.x, case.y) {
                    (Opnd::Dec(x), Opnd::Dec(y)) => outs.extend(rforms!(DivRounded::div_rounded, x.dec(), y.dec(), n)),
                    (Opnd::Dec(x), Opnd::Int(i)) => with_int!(i, iv => outs.extend(rforms!(DivRounded::div_rounded, x.dec(), iv, n))),
                    (Opnd::Int(i), Opnd::Dec(y)) => with_int!(i, iv => outs.extend(rforms!(DivRounded::div_rounded, iv, y.dec(), n))),
                    (Opnd::Int(a), Opnd::Int(b)) => {
                        let a = I { ty: b.ty, v: a.v.clamp(int_range(b.ty).0, int_range(b.ty).1) };
                        with_int!(b, bv => {
                            // same concrete type for both operands
                            let av = {
                                #[allow(unused_assignments)]
                                let mut t = bv;
                                t = (a.v as i128).try_into().unwrap_or(bv);
                                t
                            };
                            outs.extend(rforms!(DivRounded::div_rounded, av, bv, n))
                        })
                    }
                }
            }
            Op::Quantize => {
                opname = "quantize";
                let (e, info) = exp_quantize(xq, yq, md);
                if yq.is_zero() {
                    ctx.label("zero-divisor");
                } else {
                    if info.tie {
                        ctx.label("quant:tie");
                    }
                    if info.inexact {
                        ctx.label("quant:rounded");
                        ctx.nontrivial();
                    }
                    if yq.c < 0 {
                        ctx.label("quant:neg-quantum");
                    }
                    if info.overflow {
                        ctx.label("quant:overflow");
                    }
                    if info.wide {
                        ctx.nontrivial();
                    }
                }
                exps = e;
                // Where two readings of "nearest multiple under that mode" are accepted (negative
                // quantum, Ceiling/Floor), the result must still be a function of the VALUES: the
                // same quantum written with another number of trailing zeros (or as an integer)
                // must select the same multiple.
                if yq.c < 0 && !yq.is_zero() && matches!(md, oracle::Mode::Ceiling | oracle::Mode::Floor) {
                    let xd = fpdec::Decimal::new_raw(xq.c, xq.s);
                    let base = op(|| xd.quantize(fpdec::Decimal::new_raw(yq.c, yq.s)));
                    let mut alts: Vec<(String, Out)> = Vec::new();
                    if yq.s < 18 {
                        if let Some(c10) = yq.c.checked_mul(10).filter(|v| *v != i128::MIN) {
                            alts.push((format!("{}e-{}", c10, yq.s + 1), op(|| xd.quantize(fpdec::Decimal::new_raw(c10, yq.s + 1)))));
                        }
                    }
                    if yq.s > 0 && yq.c % 10 == 0 {
                        alts.push((format!("{}e-{}", yq.c / 10, yq.s - 1), op(|| xd.quantize(fpdec::Decimal::new_raw(yq.c / 10, yq.s - 1)))));
                    }
                    if yq.s == 0 {
                        if let Ok(i) = i64::try_from(yq.c) {
                            alts.push((format!("{i}_i64"), op(|| xd.quantize(i))));
                        }
                    }
                    for (what, o) in alts {
                        ctx.sub();
                        ctx.label("quant:neg-quantum:representations");
                        let same_value = match (&base, &o) {
                            (Out::Val(a, s), Out::Val(b, t)) => oracle::Big::from_i128(*a).mul(&oracle::Big::pow10(*t as u32)) == oracle::Big::from_i128(*b).mul(&oracle::Big::pow10(*s as u32)),
                            // whether the multiple is representable depends on the scale the result
                            // carries (the quantum's): a signal on one side is no verdict here
                            _ => true,
                        };
                        if !same_value {
                            ctx.fail("C04/quantize-depends-on-representation", format!("{case:?} mode={}: quantize by {}e-{} gives {base} but by the same quantum written {what} gives {o}", md.name(), yq.c, yq.s));
                        }
                    }
                }
                match (case.x, case.y) {
                    (Opnd::Dec(x), Opnd::Dec(y)) => outs.extend(forms!(Quantize::quantize, op, x.dec(), y.dec())),
                    (Opnd::Dec(x), Opnd::Int(i)) => with_int!(i, iv => outs.extend(forms!(Quantize::quantize, op, x.dec(), iv))),
                    (Opnd::Int(i), Opnd::Dec(y)) => with_int!(i, iv => outs.extend(forms!(Quantize::quantize, op, iv, y.dec()))),
                    (Opnd::Int(a), Opnd::Int(b)) => {
                        let a = I { ty: b.ty, v: a.v.clamp(int_range(b.ty).0, int_range(b.ty).1) };
                        with_int!(b, bv => {
                            let av = {
                                #[allow(unused_assignments)]
                                let mut t = bv;
                                t = (a.v as i128).try_into().unwrap_or(bv);
                                t
                            };
                            outs.extend(forms!(Quantize::quantize, op, av, bv))
                        })
                    }
                }
            }
        }
        for (form, out) in outs {
            ctx.sub();
            ctx.note(|| format!("{opname} [{form}] n={n} mode={} expected {} observed {out}", md.name(), exps[0]));
            // no result may carry more than 18 fractional digits
            // known finding D10 (int/int form only): keyed on the call site
            let int_int_gt18 = combo == "T/T" && n > 18 && case.op == Op::DivRounded;
            if int_int_gt18 {
                if let Out::Val(..) = out {
                    ctx.fail(
                        "C04/int-by-int-n-gt-18",
                        format!("{case:?} {opname} [{form}]: n = {n} > 18 not rejected by the integer/integer form, observed {out}"),
                    );
                    continue;
                }
            }
            if let Out::Val(_, s) = out {
                if s > 18 {
                    ctx.fail(
                        "C04/more-than-18-digits",
                        format!("{case:?} {opname} [{form}]: result {out} carries more than 18 fractional digits"),
                    );
                    continue;
                }
            }
            let mut res = Err("none");
            for e in &exps {
                res = judge(&out, e, false);
                if res.is_ok() {
                    break;
                }
            }
            if let Err(kind) = res {
                let kind = if n > 18 && case.op != Op::Quantize { "n-gt-18-not-rejected" } else { kind };
                ctx.fail(
                    &format!("C04/{opname}-{kind}"),
                    format!("{case:?} {opname} [{form}] mode={}: expected {}, observed {out}", md.name(), exps[0]),
                );
            }
        }
        let _ = Big::ZERO;
    }
}
