//! vp_arith2: part of the fpdec property checks (split into several crates so that they build in parallel).

pub mod c04;
pub mod c05;
pub mod c16;

/// Run the check `id` if it lives in this crate (never returns then).
pub fn dispatch(id: &str, opts: &engine::Opts) {
    match id {
        "C04" => engine::run_prop(c04::C04, opts),
        "C05" => engine::run_prop(c05::C05, opts),
        "C16" => engine::run_prop(c16::C16, opts),
        _ => {}
    }
}
