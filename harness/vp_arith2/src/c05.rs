//! C05 - round / checked_round implement all eight rounding modes exactly.

use vcore::arith::*;
use vcore::common::*;
use engine::{catch, s128, Ctx, Enumeration, Prop, Tier};
use fpdec::Round;
use fpdec_core::i128_div_rounded;
use oracle::{round_exact_cls, Big, Frac, Mode};
use proptest::prelude::*;
use serde::{Deserialize, Serialize};

#[derive(Clone, Debug, Hash, PartialEq, Eq, Serialize, Deserialize)]
pub enum Case {
    Round { x: D, n: i8, mode: u8 },
    /// the integer rounding kernel: i128_div_rounded(dividend, divisor, Some(mode))
    Kernel {
        #[serde(with = "s128")]
        dividend: i128,
        #[serde(with = "s128")]
        divisor: i128,
        mode: u8,
    },
}

pub struct C05;

fn arb_n_for(p: u8) -> BoxedStrategy<i8> {
    let p = p as i8;
    prop_oneof![
        2 => Just(p - 1),
        1 => Just(p),
        1 => Just(p + 1),
        1 => Just(0i8),
        1 => Just(-1i8),
        2 => (-2i8..=2).prop_map(move |d| p - 38 + d),
        1 => (0i8..=3).prop_map(move |d| -38 - p - d),
        1 => Just(i8::MIN),
        1 => Just(i8::MAX),
        6 => any::<i8>(),
        4 => (-40i8..=18),
    ]
    .boxed()
}

/// x whose discarded part (when rounding to n digits) is exactly one half,
/// half +- 1 ulp, or zero, with the last kept digit 0..9
fn half_case() -> BoxedStrategy<Case> {
    (0u8..=18, 1u32..=38, any::<u64>(), 0u32..=63, 0u8..=9, 0u8..4, any::<bool>(), 0u8..8)
        .prop_map(|(p, shift, k, sh, last, kind, neg, mode)| {
            // cx = (k*10 + last) * 10^shift + tail,  n = p - shift
            let head = Big::from_u64(k >> sh).mul(&Big::from_u64(10)).add(&Big::from_u64(last as u64));
            let unit = Big::pow10(shift);
            let half = Big::from_u64(5).mul(&Big::pow10(shift - 1));
            let tail = match kind {
                0 => half,
                1 => half.sub(&Big::one()),
                2 => half.add(&Big::one()),
                _ => Big::ZERO,
            };
            let c = head.mul(&unit).add(&tail);
            let cx = match c.to_i128() {
                Some(v) if v != i128::MIN => v,
                _ => {
                    // too large: drop the head
                    Big::from_u64(last as u64).mul(&unit).add(&tail).to_i128().filter(|v| *v >= 0).unwrap_or(5)
                }
            };
            let n = p as i32 - shift as i32;
            Case::Round { x: D::new(if neg { -cx } else { cx }, p), n: n.clamp(-128, 127) as i8, mode }
        })
        .boxed()
}

/// negative n with the re-scaled result near +-2^127
fn rescale_edge() -> BoxedStrategy<Case> {
    (0u8..=18, 1u32..=38, -3i128..=3, 0u8..10, any::<bool>(), 0u8..8)
        .prop_map(|(p, m, d, frac, neg, mode)| {
            // n = -m ; result = k * 10^m with k = round(cx / 10^(p+m)); choose k ~ MAX / 10^m + d
            let k = Big::from_i128(MAXC / 10i128.pow(m)).add(&Big::from_i128(d));
            let c = k.mul(&Big::pow10(p as u32 + m)).add(&Big::from_u64(frac as u64).mul(&Big::pow10((p as u32 + m).saturating_sub(1))));
            let cx = c.to_i128().filter(|v| *v != i128::MIN).unwrap_or(MAXC);
            Case::Round { x: D::new(if neg { -cx } else { cx }, p), n: -(m as i8), mode }
        })
        .boxed()
}

const K_DIVIDENDS: u64 = 2001; // -1000..=1000
const K_DIVISORS: u64 = 100; // +-1..=+-50

impl Prop for C05 {
    type Case = Case;
    fn id(&self) -> &'static str {
        "C05"
    }
    fn rule(&self) -> String {
        "Generated: (Decimal representation, n over the whole i8 range weighted to p-1, p, p+1, 0, -1, p-38+-2, -38-p.., i8::MIN/MAX, thread-default mode) for round and checked_round, each called with method syntax on the value and on a reference and through the trait by name; \
         constructed operands whose discarded part is exactly 1/2 unit, 1/2 +- 1 ulp or zero with last kept digit 0..9; negative n with the re-scaled result within 3 of +-2^127. \
         Enumerated exhaustively: the rounding kernel i128_div_rounded(dividend, divisor, Some(mode)) for dividend in -1000..=1000, divisor in +-1..=+-50, 8 modes (every sign / quotient mod 10 / remainder <,=,> half / remainder 0 class); plus random 127-bit kernel operands. \
         Oracle: round_exact written from the mode definitions (validated against Python's decimal.quantize by tools/oracle_selftest.py). \
         Non-trivial: n < p and the discarded part is non-zero (kernel: remainder non-zero). Distinct: hash of the case."
            .into()
    }
    fn assumptions(&self) -> Vec<String> {
        vec![
            "operands |coefficient| <= 2^127-1".into(),
            "a zero result may carry any number of fractional digits <= 18; a result of exactly -2^127 may be returned or signalled".into(),
            "the kernel is called with |dividend|, |divisor| <= 2^127-1".into(),
        ]
    }
    fn cases(&self, tier: Tier) -> u64 {
        match tier {
            Tier::Quick => 1 << 20,
            Tier::Thorough => 1 << 25,
        }
    }
    fn strategy(&self, _tier: Tier) -> BoxedStrategy<Case> {
        prop_oneof![
            5 => arb_d().prop_flat_map(|x| (Just(x), arb_n_for(x.s), 0u8..8)).prop_map(|(x, n, mode)| Case::Round { x, n, mode }),
            4 => half_case(),
            2 => rescale_edge(),
            2 => (arb_coeff(), arb_coeff(), 0u8..8).prop_map(|(a, b, mode)| Case::Kernel { dividend: a, divisor: if b == 0 { 1 } else { b }, mode }),
        ]
        .boxed()
    }
    fn enumerations(&self, _tier: Tier) -> Vec<Enumeration<Case>> {
        vec![Enumeration {
            name: "kernel grid: dividend -1000..=1000 x divisor +-1..=+-50 x 8 modes",
            total: K_DIVIDENDS * K_DIVISORS * 8,
            produce: Box::new(|i| {
                let mode = (i % 8) as u8;
                let i = i / 8;
                let dv = i % K_DIVISORS;
                let dd = i / K_DIVISORS;
                let divisor = if dv < 50 { dv as i128 + 1 } else { -((dv - 50) as i128 + 1) };
                Case::Kernel { dividend: dd as i128 - 1000, divisor, mode }
            }),
        }]
    }
    fn mandatory_labels(&self, _tier: Tier) -> Vec<&'static str> {
        vec!["unchanged", "rounded", "tie", "neg-n", "rescale-overflow", "beyond-38", "beyond-38-nonzero", "kernel", "kernel:tie", "kernel:neg-quot"]
    }
    fn builtin_corpus(&self) -> Vec<Case> {
        vec![
            // D11
            Case::Round { x: D::new(1, 18), n: -21, mode: 7 },
            Case::Round { x: D::new(1, 18), n: -21, mode: 1 },
            Case::Round { x: D::new(1, 18), n: -21, mode: 0 },
            Case::Round { x: D::new(-1, 18), n: -21, mode: 3 },
            Case::Round { x: D::new(MAXC, 0), n: -3, mode: 5 },
            Case::Round { x: D::new(MAXC, 0), n: -1, mode: 5 },
            Case::Round { x: D::new(MAXC, 18), n: -128, mode: 7 },
            Case::Kernel { dividend: -225, divisor: 50, mode: 5 },
        ]
    }

    fn check(&self, case: &Case, ctx: &mut Ctx) {
        match *case {
            Case::Round { x, n, mode } => {
                let md = set_mode(mode);
                ctx.label(mode_label(md));
                let (exp, info) = exp_round(x.into(), n, md);
                if n as i32 >= x.s as i32 {
                    ctx.label("unchanged");
                } else {
                    if info.inexact {
                        ctx.label("rounded");
                        ctx.nontrivial();
                    }
                    if info.tie {
                        ctx.label("tie");
                    }
                    if n < 0 {
                        ctx.label("neg-n");
                    }
                    if (n as i32) < x.s as i32 - 38 {
                        ctx.label("beyond-38");
                        if x.c != 0 {
                            ctx.label("beyond-38-nonzero");
                        }
                    }
                    if info.overflow {
                        ctx.label("rescale-overflow");
                    }
                    if info.near {
                        ctx.label("near-boundary");
                    }
                }
                let d = x.dec();
                // method syntax on the value and through a reference (an inherent method of the same
                // name would win there), and the trait method named explicitly
                let dr = &d;
                for (name, checked, out) in [
                    ("round", false, op(|| d.round(n))),
                    ("checked_round", true, opt(|| d.checked_round(n))),
                    ("(&d).round", false, op(|| dr.round(n))),
                    ("(&d).checked_round", true, opt(|| dr.checked_round(n))),
                    ("Round::round(d, n)", false, op(|| fpdec::Round::round(d, n))),
                    ("Round::checked_round(d, n)", true, opt(|| fpdec::Round::checked_round(d, n))),
                ] {
                    ctx.sub();
                    ctx.note(|| format!("{name}({n}) mode={} expected {exp} observed {out}", md.name()));
                    if let Err(kind) = judge(&out, &exp, checked) {
                        let beyond = (n as i32) < x.s as i32 - 38;
                        let sig = if beyond && kind != "checked-panics" { "C05/beyond-38-digits".to_string() } else { format!("C05/{kind}") };
                        ctx.fail(&sig, format!("{case:?} {name} mode={}: expected {exp}, observed {out}", md.name()));
                    }
                }
            }
            Case::Kernel { dividend, divisor, mode } => {
                ctx.label("kernel");
                let md = Mode::from_index(mode);
                let (r, f) = round_exact_cls(&Big::from_i128(dividend), &Big::from_i128(divisor), md);
                if f != Frac::Zero {
                    ctx.nontrivial();
                }
                if f == Frac::Half {
                    ctx.label("kernel:tie");
                }
                if r.is_neg() {
                    ctx.label("kernel:neg-quot");
                }
                ctx.sub();
                let got = catch(|| i128_div_rounded(dividend, divisor, Some(mode_to_fpdec(md))));
                ctx.note(|| format!("i128_div_rounded mode={} expected {r} observed {got:?}", md.name()));
                match got {
                    Ok(g) if r.to_i128() == Some(g) => {}
                    Ok(g) => ctx.fail(
                        "C05/kernel-wrong",
                        format!("i128_div_rounded({dividend}, {divisor}, {}) = {g}; expected {r}", md.name()),
                    ),
                    Err(p) => {
                        // the only legitimate overflow: result not in i128
                        if r.to_i128().is_some() {
                            ctx.fail(
                                "C05/kernel-panics",
                                format!("i128_div_rounded({dividend}, {divisor}, {}) panicked: {p}; expected {r}", md.name()),
                            )
                        }
                    }
                }
            }
        }
    }
}
