//! C16 - results stay correct when intermediates exceed 128 bits.
//!
//! Function level: the doc-hidden wide helpers of fpdec-core against exact
//! big-integer division.  API level: *, /, mul_rounded, div_rounded,
//! checked_div on operands whose product / scaled dividend exceeds i128.

use vcore::arith::*;
use vcore::common::*;
use engine::{catch, s128, Ctx, Prop, Tier};
use fpdec::{CheckedDiv, DivRounded, MulRounded};
use fpdec_core::{
    i128_mul_div_ten_pow_rounded, i128_shifted_div_mod_floor, i128_shifted_div_rounded,
    i256_div_mod_floor,
};
use oracle::{round_exact, Big, Mode};
use proptest::prelude::*;
use serde::{Deserialize, Serialize};

#[derive(Clone, Debug, Hash, PartialEq, Eq, Serialize, Deserialize)]
pub enum Case {
    /// i256_div_mod_floor(a, b, m), m in 1..=2^127-1
    Mul {
        #[serde(with = "s128")]
        a: i128,
        #[serde(with = "s128")]
        b: i128,
        #[serde(with = "s128")]
        m: i128,
    },
    /// i256_div_mod_floor(a, b, 10^p) and i128_mul_div_ten_pow_rounded(a, b, p, mode)
    MulPow {
        #[serde(with = "s128")]
        a: i128,
        #[serde(with = "s128")]
        b: i128,
        p: u8,
        mode: u8,
    },
    /// i128_shifted_div_mod_floor(a, k, |m|) and i128_shifted_div_rounded(a, k, m, mode)
    Shift {
        #[serde(with = "s128")]
        a: i128,
        k: u8,
        #[serde(with = "s128")]
        m: i128,
        mode: u8,
    },
    /// API level
    Api { x: D, y: D, n: u8, mode: u8 },
}

pub struct C16;

// ---------------------------------------------------------------------------
// shadow classifier: which branch of the multi-word division does (hi, lo) / y take?
// (used for labelling only - never for expected values)

fn classify(hi: u128, lo: u128, y: u128, ctx: &mut Ctx) {
    const B: u128 = 1 << 64;
    if y >> 64 == 0 {
        ctx.label("div64");
        if y == 1 {
            ctx.label("div-by-one");
        }
        return;
    }
    ctx.label("div128");
    let xh = if hi >= y {
        ctx.label("high>=divisor");
        hi % y
    } else {
        hi
    };
    let n_bits = y.leading_zeros();
    let yn = y << n_bits;
    let (yn1, yn0) = (yn >> 64, yn & (B - 1));
    let sh = if n_bits == 0 { 0 } else { lo >> (128 - n_bits) };
    let xn32 = (xh << n_bits) | sh;
    let xn10 = lo << n_bits;
    let (xn1, xn0) = (xn10 >> 64, xn10 & (B - 1));
    let mut q1 = xn32 / yn1;
    let mut rhat = xn32 % yn1;
    if q1 >= B {
        ctx.label("q1>=2^64");
    }
    let mut corr = 0;
    while q1 >= B || q1 * yn0 > rhat * B + xn1 {
        q1 -= 1;
        rhat += yn1;
        corr += 1;
        if rhat >= B {
            break;
        }
    }
    ctx.label(match corr {
        0 => "corr1=0",
        1 => "corr1=1",
        _ => "corr1=2",
    });
    let t = xn32.wrapping_mul(B).wrapping_add(xn1).wrapping_sub(q1.wrapping_mul(yn));
    let mut q0 = t / yn1;
    let mut rhat = t % yn1;
    if q0 >= B {
        ctx.label("q0>=2^64");
    }
    let mut corr = 0;
    while q0 >= B || q0 * yn0 > rhat * B + xn0 {
        q0 -= 1;
        rhat += yn1;
        corr += 1;
        if rhat >= B {
            break;
        }
    }
    ctx.label(match corr {
        0 => "corr0=0",
        1 => "corr0=1",
        _ => "corr0=2",
    });
}

fn wide_mul(a: u128, b: u128) -> (u128, u128) {
    // via Big (independent of the implementation's schoolbook multiply)
    let p = Big::from_u128(a).mul(&Big::from_u128(b));
    let (hi, lo) = p.divrem_trunc(&Big::pow2(128));
    (hi.to_u128().unwrap(), lo.to_u128().unwrap())
}

// ---------------------------------------------------------------------------
// generators

/// exact divisions: a = q1*m1, b = q2*m2, m = m1*m2 (both signs)
fn exact_mul() -> BoxedStrategy<Case> {
    (any::<u64>(), any::<u64>(), any::<u64>(), any::<u64>(), 0u32..=63, 0u32..=63, any::<bool>(), any::<bool>())
        .prop_map(|(q1, q2, m1, m2, s1, s2, n1, n2)| {
            let m1 = ((m1 >> s1) as i128).max(1);
            let m2 = ((m2 >> s2) as i128).max(1);
            let q1 = (q1 >> (s1 / 2 + 1)) as i128;
            let q2 = (q2 >> (s2 / 2 + 1)) as i128;
            let a = q1.checked_mul(m1).unwrap_or(q1);
            let b = q2.checked_mul(m2).unwrap_or(q2);
            let m = m1.checked_mul(m2).unwrap_or(m1);
            Case::Mul { a: if n1 { -a } else { a }, b: if n2 { -b } else { b }, m }
        })
        .boxed()
}

/// exact negative products over a power of ten: a*b = -k*10^p
fn exact_mulpow() -> BoxedStrategy<Case> {
    (any::<u64>(), any::<u64>(), 0u8..=38, 0u8..=38, any::<bool>(), any::<bool>(), 0u8..8)
        .prop_map(|(u, v, pa, pb, n1, n2, mode)| {
            let pa = pa.min(19);
            let pb = pb.min(19);
            let a = (u as i128).checked_mul(10i128.pow(pa as u32)).unwrap_or(u as i128);
            let b = (v as i128).checked_mul(10i128.pow(pb as u32)).unwrap_or(v as i128);
            Case::MulPow { a: if n1 { -a } else { a }, b: if n2 { -b } else { b }, p: (pa + pb).min(38), mode }
        })
        .boxed()
}

/// exact shifted divisions: a*10^k = q*m exactly, m = d*10^j ...
fn exact_shift() -> BoxedStrategy<Case> {
    (any::<u64>(), any::<u64>(), 0u8..=38, any::<bool>(), any::<bool>(), 0u8..8, 0u32..=63)
        .prop_map(|(q, d, k, n1, n2, mode, sh)| {
            // m = d * 2^i * 5^j with i, j <= k divides a * 10^k when a = q * d
            let d = ((d >> sh) as i128).max(1);
            let a = (q as i128).checked_mul(d).unwrap_or(q as i128);
            let j = (k / 2) as u32;
            let m = d.checked_mul(5i128.pow(j.min(27))).and_then(|v| v.checked_mul(1i128 << j.min(20))).unwrap_or(d);
            Case::Shift { a: if n1 { -a } else { a }, k, m: if n2 { -m } else { m }, mode }
        })
        .boxed()
}

/// floor quotient exactly at / next to 2^127-1 with a chosen remainder:
/// m = 10^k - j, Q = MAX + d, rho = (Q*j) mod 10^k, a = (Q*m + rho) / 10^k (exact)
fn quotient_edge_shift() -> BoxedStrategy<Case> {
    (1u8..=38, any::<u64>(), 0u32..=63, -2i128..=1, any::<bool>(), 0u8..8)
        .prop_map(|(k, j, sh, d, neg, mode)| {
            let t = Big::pow10(k as u32);
            let j = Big::from_u64((j >> sh).max(1));
            let (_, j) = j.divrem_trunc(&t.divrem_trunc(&Big::from_u64(2)).0.add(&Big::one()));
            let j = if j.is_zero() { Big::one() } else { j };
            let m = t.sub(&j);
            let q = Big::from_i128(MAXC).add(&Big::from_i128(d));
            let (_, rho) = q.mul(&j).divrem_trunc(&t);
            let n = q.mul(&m).add(&rho);
            let (a, rem) = n.divrem_trunc(&t);
            debug_assert!(rem.is_zero());
            let a = a.to_i128().filter(|v| *v != i128::MIN).unwrap_or(MAXC);
            let m = m.to_i128().unwrap_or(1).max(1);
            Case::Shift { a: if neg { -a } else { a }, k, m: if neg { -m } else { m }, mode }
        })
        .boxed()
}

/// a*b = Q*m + r with Q = MAX + d, small r: b = m + j, a = ceil(Q*m / b)
fn quotient_edge_mul() -> BoxedStrategy<Case> {
    (arb_divisor(), any::<u32>(), 0u32..=31, -2i128..=1, any::<bool>(), 0u8..=38, any::<bool>(), 0u8..8)
        .prop_map(|(m, j, sh, d, neg, p, pow, mode)| {
            let m = if pow { 10i128.pow(p as u32) } else { m };
            let mb = Big::from_i128(m);
            let b = mb.add(&Big::from_u64((j >> sh) as u64));
            let q = Big::from_i128(MAXC).add(&Big::from_i128(d));
            let (a0, r0) = q.mul(&mb).divrem_trunc(&b);
            let a = if r0.is_zero() { a0 } else { a0.add(&Big::one()) };
            let a = a.to_i128().filter(|v| *v != i128::MIN).unwrap_or(MAXC);
            let b = b.to_i128().filter(|v| *v != i128::MIN).unwrap_or(MAXC);
            let a = if neg { -a } else { a };
            if pow {
                Case::MulPow { a, b, p, mode }
            } else {
                Case::Mul { a, b, m }
            }
        })
        .boxed()
}

/// API-level operands on the wide path
fn api_wide() -> BoxedStrategy<Case> {
    (arb_coeff(), arb_coeff(), 0u8..=18, 0u8..=18, 0u8..=18, 0u8..8, 0u32..=100, any::<bool>())
        .prop_map(|(cx, cy, p, q, n, mode, bits, big_y)| {
            // push magnitudes up so that cx*cy or cx*10^s exceeds i128
            let widen = |c: i128, b: u32| -> i128 {
                if c == 0 {
                    return 0;
                }
                let mut v = c.unsigned_abs();
                let odd = v & 1;
                while (128 - v.leading_zeros()) < b.min(126) {
                    v = (v << 1) | odd;
                }
                let v = (v & MAXC as u128) as i128;
                if c < 0 {
                    -v
                } else {
                    v
                }
            };
            let x = D::new(widen(cx, 64 + bits / 2), p);
            let y = D::new(if big_y { widen(cy, 40 + bits / 2) } else { cy }, q);
            Case::Api { x, y, n, mode }
        })
        .boxed()
}

fn judge_divmod(
    name: &str,
    got: Result<Option<(i128, i128)>, String>,
    n: &Big,
    m: &Big,
    ctx: &mut Ctx,
    case: &Case,
) {
    ctx.sub();
    let (q, r) = n.divrem_floor(m);
    let qi = q.to_i128();
    let exp_txt = format!("q={q} r={r}");
    ctx.note(|| format!("{name}: expected {exp_txt}, observed {got:?}"));
    match got {
        Err(p) => ctx.fail("C16/helper-panics", format!("{case:?} {name} panicked: {p}; expected {exp_txt}")),
        Ok(None) => {
            // allowed iff |q| > 2^127-1
            if q.fits_coeff() {
                ctx.fail("C16/spurious-none", format!("{case:?} {name} = None; expected {exp_txt}"));
            }
        }
        Ok(Some((gq, gr))) => {
            let ok = qi == Some(gq) && r.to_i128() == Some(gr);
            if !ok {
                // classify: remainder out of range (r == m) vs. anything else
                let sig = if Big::from_i128(gr) == *m || gr < 0 || Big::from_i128(gr) > *m {
                    "C16/remainder-out-of-range"
                } else {
                    "C16/wrong-quotient"
                };
                ctx.fail(sig, format!("{case:?} {name} = Some(({gq}, {gr})); expected {exp_txt}"));
            }
        }
    }
}

fn judge_rounded(
    name: &str,
    got: Result<Option<i128>, String>,
    n: &Big,
    m: &Big,
    mode: Mode,
    ctx: &mut Ctx,
    case: &Case,
) {
    ctx.sub();
    let r = round_exact(n, m, mode);
    ctx.note(|| format!("{name} [{}]: expected {r}, observed {got:?}", mode.name()));
    match got {
        Err(p) => ctx.fail(
            "C16/helper-panics",
            format!("{case:?} {name} [{}] panicked: {p}; expected {r}", mode.name()),
        ),
        Ok(None) => {
            if r.fits_coeff() {
                ctx.fail("C16/spurious-none", format!("{case:?} {name} [{}] = None; expected {r}", mode.name()));
            }
        }
        Ok(Some(g)) => {
            if r.to_i128() != Some(g) {
                ctx.fail("C16/wrong-rounded", format!("{case:?} {name} [{}] = Some({g}); expected {r}", mode.name()));
            }
        }
    }
}

impl Prop for C16 {
    type Case = Case;
    fn id(&self) -> &'static str {
        "C16"
    }
    fn rule(&self) -> String {
        "Function level: i256_div_mod_floor(a,b,m), i128_shifted_div_mod_floor(a,k,m), i128_mul_div_ten_pow_rounded(a,b,p,mode), \
         i128_shifted_div_rounded(a,k,m,mode) for a,b in i128 (incl. i128::MIN), k,p in 0..=38, m in 1..=2^127-1 (negative m for the rounded shifted division), all 8 modes passed explicitly and via the thread default; \
         operands from limb-pattern generators, adversarial divisors (normalised high limb 0x8000.., low limb all ones; just above/below 2^64), exact divisions of both signs, quotients at +-2^127. \
         A shadow classifier labels the branch of the multi-word division each case takes (div64/div128, high>=divisor, corr1/corr0 = 0,1,2). \
         API level: *, /, mul_rounded, div_rounded, checked_div on Decimal operands whose coefficient product or scaled dividend exceeds i128. \
         Oracle: a*b (a*10^k) = q*m + r with 0 <= r < m in 768-bit integers; rounded variants = round_exact from the mode definitions. \
         Non-trivial: the 256-bit dividend exceeds 2^127 (function level) / the wide flag of the oracle (API level). Distinct: hash of the case."
            .into()
    }
    fn assumptions(&self) -> Vec<String> {
        vec![
            "a quotient of exactly -2^127 may be returned or reported as out of range".into(),
            "i128_shifted_div_rounded with a negative divisor is not called with a = i128::MIN (negation of the dividend is outside the documented domain)".into(),
        ]
    }
    fn cases(&self, tier: Tier) -> u64 {
        match tier {
            Tier::Quick => 1 << 20,
            Tier::Thorough => 1 << 25,
        }
    }
    fn strategy(&self, _tier: Tier) -> BoxedStrategy<Case> {
        prop_oneof![
            5 => (arb_wide_i128(), arb_wide_i128(), arb_divisor()).prop_map(|(a, b, m)| Case::Mul { a, b, m }),
            3 => (arb_wide_i128(), arb_wide_i128(), 0u8..=38, 0u8..8).prop_map(|(a, b, p, mode)| Case::MulPow { a, b, p, mode }),
            5 => (arb_wide_i128(), 0u8..=38, arb_divisor(), any::<bool>(), 0u8..8).prop_map(|(a, k, m, neg, mode)| {
                Case::Shift { a, k, m: if neg && a != i128::MIN { -m } else { m }, mode }
            }),
            2 => exact_mul(),
            2 => exact_mulpow(),
            2 => exact_shift(),
            2 => quotient_edge_shift(),
            2 => quotient_edge_mul(),
            4 => api_wide(),
        ]
        .boxed()
    }
    fn mandatory_labels(&self, _tier: Tier) -> Vec<&'static str> {
        vec![
            "div64", "div128", "high>=divisor", "corr1=0", "corr1=1", "corr1=2", "corr0=0", "corr0=1", "corr0=2",
            "exact", "neg-exact", "neg-inexact", "quotient-overflow", "api-wide-mul", "api-wide-div", "dividend>128bit", "floor-quot=MAX-inexact",
        ]
    }
    fn builtin_corpus(&self) -> Vec<Case> {
        vec![
            // D8: exact negative dividend
            Case::Mul { a: -10, b: 10, m: 10 },
            Case::Mul { a: 0, b: -5, m: 7 },
            Case::MulPow { a: -10_000_000_000, b: 10_000_000_000, p: 2, mode: 3 },
            Case::Shift { a: -1_000_000_000_000_000_000_000_000_000_000, k: 30, m: 1_000_000_000_000, mode: 3 },
            Case::Api { x: D::new(-10_000_000_000, 10), y: D::new(10_000_000_000, 10), n: 18, mode: 3 },
            Case::Api { x: D::new(-1_000_000_000_000_000_000_000_000_000_000, 0), y: D::new(1_000_000_000_000, 0), n: 18, mode: 7 },
            // D13: floor quotient = MAX with non-zero remainder
            Case::Api { x: D::new(153127065114422308558518573344295695155, 18), y: D::new(9, 1), n: 18, mode: 5 },
        ]
    }

    fn check(&self, case: &Case, ctx: &mut Ctx) {
        match *case {
            Case::Mul { a, b, m } => {
                ctx.label("fn-mul");
                let n = Big::from_i128(a).mul(&Big::from_i128(b));
                let mb = Big::from_i128(m);
                let (hi, lo) = wide_mul(a.unsigned_abs(), b.unsigned_abs());
                classify(hi, lo, m as u128, ctx);
                self.common_labels(&n, &mb, ctx);
                let got = catch(|| i256_div_mod_floor(a, b, m));
                judge_divmod("i256_div_mod_floor", got, &n, &mb, ctx, case);
            }
            Case::MulPow { a, b, p, mode } => {
                ctx.label("fn-mulpow");
                let md = set_mode(mode);
                ctx.label(mode_label(md));
                let n = Big::from_i128(a).mul(&Big::from_i128(b));
                let mb = Big::pow10(p as u32);
                let m = 10i128.pow(p as u32);
                let (hi, lo) = wide_mul(a.unsigned_abs(), b.unsigned_abs());
                classify(hi, lo, m as u128, ctx);
                self.common_labels(&n, &mb, ctx);
                let got = catch(|| i256_div_mod_floor(a, b, m));
                judge_divmod("i256_div_mod_floor", got, &n, &mb, ctx, case);
                let got = catch(|| i128_mul_div_ten_pow_rounded(a, b, p, Some(mode_to_fpdec(md))));
                judge_rounded("i128_mul_div_ten_pow_rounded(Some)", got, &n, &mb, md, ctx, case);
                let got = catch(|| i128_mul_div_ten_pow_rounded(a, b, p, None));
                judge_rounded("i128_mul_div_ten_pow_rounded(None)", got, &n, &mb, md, ctx, case);
            }
            Case::Shift { a, k, m, mode } => {
                ctx.label("fn-shift");
                let md = set_mode(mode);
                ctx.label(mode_label(md));
                let n = Big::from_i128(a).mul(&Big::pow10(k as u32));
                let mabs = m.unsigned_abs() as i128; // m != MIN by construction
                let mb = Big::from_i128(mabs);
                let (hi, lo) = wide_mul(a.unsigned_abs(), 10u128.pow(k as u32));
                classify(hi, lo, mabs as u128, ctx);
                self.common_labels(&n, &mb, ctx);
                let got = catch(|| i128_shifted_div_mod_floor(a, k, mabs));
                judge_divmod("i128_shifted_div_mod_floor", got, &n, &mb, ctx, case);
                if m < 0 {
                    ctx.label("neg-divisor");
                }
                if m < 0 && a == i128::MIN {
                    return;
                }
                let mbs = Big::from_i128(m);
                let got = catch(|| i128_shifted_div_rounded(a, k, m, Some(mode_to_fpdec(md))));
                judge_rounded("i128_shifted_div_rounded(Some)", got, &n, &mbs, md, ctx, case);
                let got = catch(|| i128_shifted_div_rounded(a, k, m, None));
                judge_rounded("i128_shifted_div_rounded(None)", got, &n, &mbs, md, ctx, case);
            }
            Case::Api { x, y, n, mode } => {
                let md = set_mode(mode);
                ctx.label(mode_label(md));
                let (xq, yq): (Q, Q) = (x.into(), y.into());
                let (xd, yd) = (x.dec(), y.dec());
                let mut one = |name: &'static str, out: Out, exp: Exp, info: &Info, checked: bool, ctx: &mut Ctx| {
                    ctx.sub();
                    ctx.note(|| format!("{name}: expected {exp}, observed {out}"));
                    if info.wide {
                        ctx.nontrivial();
                    }
                    if let Err(kind) = judge(&out, &exp, checked) {
                        ctx.fail(&format!("C16/api-{kind}"), format!("{case:?} {name}: expected {exp}, observed {out}"));
                    }
                };
                let (e, i) = exp_mul(xq, yq, md);
                if i.wide {
                    ctx.label("api-wide-mul");
                }
                one("x * y", op(|| xd * yd), e, &i, false, ctx);
                let (e, i) = exp_mul_rounded(xq, yq, n, md);
                one("x.mul_rounded(y, n)", op(|| xd.mul_rounded(yd, n)), e, &i, false, ctx);
                let (e, i) = exp_div(xq, yq, md);
                if i.wide {
                    ctx.label("api-wide-div");
                }
                one("x / y", op(|| xd / yd), e.clone(), &i, false, ctx);
                one("x.checked_div(y)", opt(|| xd.checked_div(yd)), e, &i, true, ctx);
                let (e, i) = exp_div_rounded(xq, yq, n, md);
                one("x.div_rounded(y, n)", op(|| xd.div_rounded(yd, n)), e, &i, false, ctx);
            }
        }
    }
}

impl C16 {
    fn common_labels(&self, n: &Big, m: &Big, ctx: &mut Ctx) {
        if n.bits() > 127 {
            ctx.label("dividend>128bit");
            ctx.nontrivial();
        }
        let (q, r) = n.divrem_floor(m);
        if r.is_zero() {
            ctx.label("exact");
            if n.is_neg() {
                ctx.label("neg-exact");
            }
        } else if n.is_neg() {
            ctx.label("neg-inexact");
        }
        if q.to_i128() == Some(i128::MAX) && !r.is_zero() {
            ctx.label("floor-quot=MAX-inexact");
        }
        if !q.fits_coeff() {
            ctx.label("quotient-overflow");
        } else if near_edge(&q) {
            ctx.label("quotient-near-edge");
        }
    }
}
