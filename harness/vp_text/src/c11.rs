//! C11 - formatting with precision, width, fill, alignment and sign flags.

use vcore::common::*;
use engine::{catch, Ctx, Prop, Tier};
use fpdec::Decimal;
use oracle::text::{pad_integral_model, ref_format, Align, Spec};
use oracle::{round_exact_cls, Big, Frac};
use proptest::prelude::*;
use serde::{Deserialize, Serialize};

#[derive(Clone, Debug, Hash, PartialEq, Eq, Serialize, Deserialize)]
pub struct Case {
    pub x: D,
    pub mode: u8,
    /// index into the static flag table
    pub flags: u16,
    pub width: Option<u8>,
    pub precision: Option<u8>,
}

pub struct C11;

struct Entry {
    text: &'static str,
    fill: char,
    align: Align,
    plus: bool,
    zero: bool,
    f_none: fn(&Decimal) -> String,
    f_w: fn(&Decimal, usize) -> String,
    f_p: fn(&Decimal, usize) -> String,
    f_wp: fn(&Decimal, usize, usize) -> String,
    i_none: fn(i128) -> String,
    i_w: fn(i128, usize) -> String,
}

macro_rules! entry {
    ($fa:literal, $fill:expr, $align:expr, $plus:literal, $plusb:expr, $zero:literal, $zerob:expr) => {
        Entry {
            text: concat!($fa, $plus, $zero),
            fill: $fill,
            align: $align,
            plus: $plusb,
            zero: $zerob,
            f_none: |d| format!(concat!("{:", $fa, $plus, $zero, "}"), d),
            f_w: |d, w| format!(concat!("{:", $fa, $plus, $zero, "w$}"), d, w = w),
            f_p: |d, p| format!(concat!("{:", $fa, $plus, $zero, ".p$}"), d, p = p),
            f_wp: |d, w, p| format!(concat!("{:", $fa, $plus, $zero, "w$.p$}"), d, w = w, p = p),
            i_none: |i| format!(concat!("{:", $fa, $plus, $zero, "}"), i),
            i_w: |i, w| format!(concat!("{:", $fa, $plus, $zero, "w$}"), i, w = w),
        }
    };
}

macro_rules! entries4 {
    ($fa:literal, $fill:expr, $align:expr) => {
        [
            entry!($fa, $fill, $align, "", false, "", false),
            entry!($fa, $fill, $align, "+", true, "", false),
            entry!($fa, $fill, $align, "", false, "0", true),
            entry!($fa, $fill, $align, "+", true, "0", true),
        ]
    };
}

fn table() -> Vec<Entry> {
    let mut v = Vec::new();
    v.extend(entries4!("", ' ', Align::Default));
    v.extend(entries4!("<", ' ', Align::Left));
    v.extend(entries4!("^", ' ', Align::Center));
    v.extend(entries4!(">", ' ', Align::Right));
    // explicit fill characters (incl. '0', a digit, the sign characters, a multi-byte one) with every alignment
    v.extend(entries4!("*<", '*', Align::Left));
    v.extend(entries4!("*^", '*', Align::Center));
    v.extend(entries4!("*>", '*', Align::Right));
    v.extend(entries4!("_<", '_', Align::Left));
    v.extend(entries4!("_^", '_', Align::Center));
    v.extend(entries4!("_>", '_', Align::Right));
    v.extend(entries4!("#<", '#', Align::Left));
    v.extend(entries4!("#^", '#', Align::Center));
    v.extend(entries4!("#>", '#', Align::Right));
    v.extend(entries4!("0<", '0', Align::Left));
    v.extend(entries4!("0^", '0', Align::Center));
    v.extend(entries4!("0>", '0', Align::Right));
    v.extend(entries4!("é<", 'é', Align::Left));
    v.extend(entries4!("é^", 'é', Align::Center));
    v.extend(entries4!("é>", 'é', Align::Right));
    v.extend(entries4!("-<", '-', Align::Left));
    v.extend(entries4!("-^", '-', Align::Center));
    v.extend(entries4!("->", '-', Align::Right));
    v.extend(entries4!("+<", '+', Align::Left));
    v.extend(entries4!("+^", '+', Align::Center));
    v.extend(entries4!("+>", '+', Align::Right));
    v.extend(entries4!("1<", '1', Align::Left));
    v.extend(entries4!("1^", '1', Align::Center));
    v.extend(entries4!("1>", '1', Align::Right));
    v.extend(entries4!(".<", '.', Align::Left));
    v.extend(entries4!(".^", '.', Align::Center));
    v.extend(entries4!(".>", '.', Align::Right));
    v.extend(entries4!("x<", 'x', Align::Left));
    v.extend(entries4!("x^", 'x', Align::Center));
    v.extend(entries4!("x>", 'x', Align::Right));
    v
}

thread_local! {
    static TABLE: Vec<Entry> = table();
}

const N_FLAGS: usize = 4 * (4 + 10 * 3);

/// decimals weighted to carries (..9.99..), ties at the cut, negative values rounding to zero
fn fmt_decimal() -> BoxedStrategy<D> {
    prop_oneof![
        4 => arb_d(),
        2 => (arb_word_coeff(), arb_scale()).prop_map(|(c, s)| D::new(c, s)),
        // all nines: carry into the integer part
        2 => (1u32..=38, arb_scale(), any::<bool>()).prop_map(|(k, s, neg)| {
            let c = 10i128.pow(k) - 1;
            D::new(if neg { -c } else { c }, s)
        }),
        // tie at a cut position: ...d5 followed by zeros
        3 => (1u8..=18, any::<u32>(), 0u8..=17, any::<bool>(), -1i128..=1).prop_map(|(s, head, z, neg, off)| {
            let z = z % s; // number of trailing zeros after the 5
            let c = ((head as i128) * 10 + 5) * 10i128.pow(z as u32) + off;
            D::new(if neg { -c } else { c }, s)
        }),
        // small magnitudes: negative values that round to zero
        2 => (1u8..=18, 0i128..=60, any::<bool>()).prop_map(|(s, c, neg)| D::new(if neg { -c } else { c }, s)),
    ]
    .boxed()
}

impl Prop for C11 {
    type Case = Case;
    fn id(&self) -> &'static str {
        "C11"
    }
    fn rule(&self) -> String {
        "Generated: (Decimal, thread-default mode, flag set, width, precision): 136 static flag sets = ({none,<,^,>} + {fill in * _ # 0 é - + 1 . x} x {<,^,>}) x {'+' on/off} x {'0' on/off}, each stamped as format!(\"{:..w$.p$}\") closures with width absent or 0..=60 and precision absent or 0..=40; \
         decimals weighted to carries (all nines), ties at the cut, small negative values that round to zero. \
         Oracle: value rounded once to min(P,18) digits by the mode definitions, digits from big-integer printing, sign from d, padding by a model of Formatter::pad_integral which is itself checked on every case against std's formatting of the i128 coefficient with the same flags. \
         Non-trivial: precision present and different from the scale, or width larger than the body. Distinct: hash of the case."
            .into()
    }
    fn assumptions(&self) -> Vec<String> {
        vec![
            "operands |coefficient| <= 2^127-1".into(),
            "flag sets are the 48 listed; '#' alternate flag is not exercised (as a fill character only)".into(),
        ]
    }
    fn cases(&self, tier: Tier) -> u64 {
        match tier {
            Tier::Quick => 1 << 20,
            Tier::Thorough => 1 << 25,
        }
    }
    fn strategy(&self, _tier: Tier) -> BoxedStrategy<Case> {
        let generic = (
            fmt_decimal(),
            0u8..8,
            0u16..N_FLAGS as u16,
            prop_oneof![1 => Just(None), 3 => (0u8..=60).prop_map(Some)],
            prop_oneof![1 => Just(None), 4 => (0u8..=40).prop_map(Some)],
        )
            .prop_map(|(x, mode, flags, width, precision)| Case { x, mode, flags, width, precision });
        // precision coupled to the decimal: cut exactly before a 5 followed by zeros (tie), +-1 ulp, or before nines (carry)
        let coupled = (1u8..=18, any::<u32>(), 0u8..=17, any::<bool>(), -1i128..=1, 0u8..3, 0u8..8, 0u16..N_FLAGS as u16, prop_oneof![1 => Just(None), 2 => (0u8..=30).prop_map(Some)])
            .prop_map(|(s, head, z, neg, off, kind, mode, flags, width)| {
                let z = z % s;
                let tail = match kind {
                    0 => 5 * 10i128.pow(z as u32) + off,          // tie +- off
                    1 => 10i128.pow(z as u32 + 1) - 1,             // nines: carry into the kept digits
                    _ => off.abs(),                                // exact or just above
                };
                let head = if kind == 1 { (head as i128 % 100) * 100 + 99 } else { head as i128 };
                let c = head * 10i128.pow(z as u32 + 1) + tail;
                Case { x: D::new(if neg { -c } else { c }, s), mode, flags, width, precision: Some(s - z - 1) }
            });
        prop_oneof![3 => generic, 1 => coupled].boxed()
    }
    fn mandatory_labels(&self, _tier: Tier) -> Vec<&'static str> {
        vec!["prec<scale", "prec=scale", "prec>scale", "prec>18", "prec-absent", "padded", "zero-flag", "plus-flag", "tie", "carry", "neg-rounds-to-zero", "rounded"]
    }
    fn builtin_corpus(&self) -> Vec<Case> {
        vec![
            Case { x: D::new(-5, 3), mode: 5, flags: 0, width: Some(8), precision: Some(2) },
            Case { x: D::new(-5, 3), mode: 5, flags: 3, width: Some(8), precision: Some(0) },
            Case { x: D::new(9995, 3), mode: 6, flags: 2, width: Some(10), precision: Some(2) },
            Case { x: D::new(12345, 2), mode: 5, flags: 5, width: Some(20), precision: Some(30) },
            Case { x: D::new(MAXC, 18), mode: 7, flags: 0, width: None, precision: Some(0) },
            Case { x: D::new(25, 1), mode: 5, flags: 0, width: None, precision: Some(0) },
        ]
    }

    fn check(&self, case: &Case, ctx: &mut Ctx) {
        let md = set_mode(case.mode);
        ctx.label(mode_label(md));
        let x = case.x;
        let d = x.dec();
        crate::c07::failing_sink_first(&d, engine::case_hash(case));
        let idx = (case.flags as usize) % N_FLAGS;
        let (w, p) = (case.width.map(|v| v as usize), case.precision.map(|v| v as usize));
        TABLE.with(|t| {
            let e = &t[idx];
            let spec = Spec { fill: e.fill, align: e.align, plus: e.plus, zero: e.zero, width: w, precision: p };
            // --- validate the padding model against std's integer formatting
            let int_spec = Spec { precision: None, ..spec };
            let ibody = x.c.unsigned_abs().to_string();
            let imodel = pad_integral_model(x.c >= 0, &ibody, &int_spec);
            let ireal = match w {
                None => (e.i_none)(x.c),
                Some(w) => (e.i_w)(x.c, w),
            };
            assert!(imodel == ireal, "padding model disagrees with std: spec {:?} model {imodel:?} std {ireal:?}", e.text);
            // --- expectation
            let want = ref_format(x.c, x.s, md, &spec);
            // classification
            match p {
                None => ctx.label("prec-absent"),
                Some(p) => {
                    let pe = p.min(18);
                    if p > 18 {
                        ctx.label("prec>18");
                    }
                    match pe.cmp(&(x.s as usize)) {
                        std::cmp::Ordering::Less => {
                            ctx.label("prec<scale");
                            ctx.nontrivial();
                            let (k, f) = round_exact_cls(&x.big(), &Big::pow10((x.s as usize - pe) as u32), md);
                            if f != Frac::Zero {
                                ctx.label("rounded");
                            }
                            if f == Frac::Half {
                                ctx.label("tie");
                            }
                            if k.is_zero() && x.c < 0 {
                                ctx.label("neg-rounds-to-zero");
                            }
                            // carry: rounded magnitude has more digits than the truncated one
                            let (t, _) = x.big().abs().divrem_trunc(&Big::pow10((x.s as usize - pe) as u32));
                            if k.abs().abs_digits().len() > t.abs_digits().len() {
                                ctx.label("carry");
                            }
                        }
                        std::cmp::Ordering::Equal => ctx.label("prec=scale"),
                        std::cmp::Ordering::Greater => {
                            ctx.label("prec>scale");
                            ctx.nontrivial();
                        }
                    }
                }
            }
            if e.zero {
                ctx.label("zero-flag");
            }
            if e.plus {
                ctx.label("plus-flag");
            }
            if let Some(w) = w {
                let unpadded = ref_format(x.c, x.s, md, &Spec { width: None, ..spec });
                if w > unpadded.chars().count() {
                    ctx.label("padded");
                    ctx.nontrivial();
                }
            }
            ctx.sub();
            let got = catch(|| match (w, p) {
                (None, None) => (e.f_none)(&d),
                (Some(w), None) => (e.f_w)(&d, w),
                (None, Some(p)) => (e.f_p)(&d, p),
                (Some(w), Some(p)) => (e.f_wp)(&d, w, p),
            });
            ctx.note(|| format!("format!(\"{{:{}{}{}}}\") mode={} expected {want:?} observed {got:?}", e.text, if w.is_some() { "w$" } else { "" }, if p.is_some() { ".p$" } else { "" }, md.name()));
            match got {
                Ok(s) if s == want => {}
                Ok(s) => {
                    // classify: digits wrong vs. padding/sign wrong
                    let strip = |t: &str| -> String { t.chars().filter(|c| c.is_ascii_digit() || *c == '.').collect::<String>().trim_start_matches('0').to_string() };
                    let sig = if strip(&s) != strip(&want) && !e.zero && e.fill != '0' { "C11/wrong-digits" } else { "C11/wrong-layout" };
                    ctx.fail(sig, format!("{case:?} flags {:?} width {w:?} precision {p:?} mode={}: expected {want:?}, observed {s:?}", e.text, md.name()));
                }
                Err(m) => ctx.fail("C11/panics", format!("{case:?} flags {:?}: panicked: {m}", e.text)),
            }
        });
    }
}
