//! C18 - the Dec! macro and runtime parsing agree on every literal.
//!
//! Generated *programs*: batches of literals are stamped into two binaries of a
//! scratch crate that depends on /repo.  P_ok holds the literals from_str
//! accepts: it must compile and print, per line, the (coefficient, scale) of
//! the constant, which must equal from_str's.  P_all holds all literals and
//! is compiled with JSON diagnostics: rustc reports every panicking Dec!
//! invocation as its own error with its line, so the set of error lines must
//! equal exactly the set of literals from_str rejects.

use engine::{Opts, Tier};
use fpdec::Decimal;
use oracle::Big;
use proptest::prelude::*;
use proptest::strategy::ValueTree;
use proptest::test_runner::{Config, RngSeed, TestRunner};
use std::collections::{BTreeMap, BTreeSet};
use std::path::{Path, PathBuf};
use std::process::Command;
use std::str::FromStr;
use std::time::Instant;

fn digits(n: std::ops::RangeInclusive<usize>) -> BoxedStrategy<String> {
    proptest::collection::vec(0u8..10, n).prop_map(|v| v.into_iter().map(|d| (b'0' + d) as char).collect()).boxed()
}

fn sign() -> BoxedStrategy<&'static str> {
    prop_oneof![3 => Just(""), 2 => Just("-"), 1 => Just("+")].boxed()
}

fn exp() -> BoxedStrategy<String> {
    prop_oneof![
        6 => (prop_oneof![Just("e"), Just("E")], sign(), 0i32..=40).prop_map(|(e, s, v)| format!("{e}{s}{v}")),
        1 => (prop_oneof![Just("e"), Just("E")], sign(), 0i32..=40, 1usize..=3).prop_map(|(e, s, v, z)| format!("{e}{s}{}{v}", "0".repeat(z))),
        1 => (prop_oneof![Just("e"), Just("E")], sign(), 41i32..=400).prop_map(|(e, s, v)| format!("{e}{s}{v}")),
    ]
    .boxed()
}

/// literal texts rustc's lexer accepts as one optional sign + one unsuffixed numeric literal
fn rust_lit() -> BoxedStrategy<String> {
    let int = prop_oneof![4 => digits(1..=12), 2 => digits(12..=30), 1 => digits(30..=40)];
    let lz = prop_oneof![3 => Just(0usize), 1 => 1usize..=3];
    prop_oneof![
        // INT
        3 => (sign(), lz.clone(), int.clone()).prop_map(|(s, z, i)| format!("{s}{}{i}", "0".repeat(z))),
        // INT '.' DIGITS
        5 => (sign(), lz.clone(), int.clone(), prop_oneof![3 => digits(1..=18), 1 => digits(18..=40)]).prop_map(|(s, z, i, f)| format!("{s}{}{i}.{f}", "0".repeat(z))),
        // INT '.'
        1 => (sign(), int.clone()).prop_map(|(s, i)| format!("{s}{i}.")),
        // INT EXP
        3 => (sign(), lz.clone(), int.clone(), exp()).prop_map(|(s, z, i, e)| format!("{s}{}{i}{e}", "0".repeat(z))),
        // INT '.' DIGITS EXP
        5 => (sign(), lz, int, prop_oneof![3 => digits(1..=18), 1 => digits(18..=40)], exp()).prop_map(|(s, z, i, f, e)| format!("{s}{}{i}.{f}{e}", "0".repeat(z))),
        // boundary coefficients with optional point / exponent
        4 => (sign(), 0u8..6, -3i128..=3, 0usize..=40, 0u8..4, -2i32..=2).prop_map(|(s, kind, d, cut, style, de)| {
            let base = match kind {
                0 => Big::pow2(127),
                1 => Big::pow10(38),
                2 => Big::pow2(128),
                3 => Big::pow2(128).add(&Big::pow10(38)),
                4 => Big::pow2(128).mul(&Big::from_u64(2)).add(&Big::pow2(127)).sub(&Big::from_u64(5)),
                _ => Big::pow10(39),
            };
            let t = base.add(&Big::from_i128(d)).abs_digits();
            let cut = cut.min(t.len() - 1);
            let (a, b) = t.split_at(t.len() - cut);
            match style {
                0 => format!("{s}{t}"),
                1 if cut > 0 => format!("{s}{a}.{b}"),
                2 if cut > 0 => format!("{s}{a}.{b}e{}", cut as i32 + de),
                _ => format!("{s}{t}e{}", de.abs()),
            }
        }),
        // coefficient * 10^e at the edge
        2 => (sign(), 1u32..=38, -2i128..=2, 0i32..=1).prop_map(|(s, e, d, de)| {
            let c = (i128::MAX / 10i128.pow(e)).saturating_add(d);
            format!("{s}{c}e{}", e as i32 + de)
        }),
        // scale limits: fraction length - exponent in {17, 18, 19}
        2 => (sign(), 1usize..=30, -1i32..=1).prop_map(|(s, fl, de)| {
            let f = "3".repeat(fl);
            format!("{s}7.{f}e{}", fl as i32 - (18 + de))
        }),
        // zero forms
        1 => proptest::sample::select(vec!["0", "0.0", "0.", "00", "0e5", "0E0", "0e-3", "0e99", "0.0e40", "0e-19", "0.000e-20", "-0", "+0.00", "0.0000000000000000000", "0.000000000000000000"]).prop_map(|s| s.to_string()),
        // underscores, other radices, suffixes (outside the quantifier; must still agree)
        1 => proptest::sample::select(vec!["1_000", "1_0.5", "1e1_0", "0x10", "0b11", "0o17", "1f32", "1u8", "1.5f64", "1_", "1.0e0_1"]).prop_map(|s| s.to_string()),
        // fraction-first form used by the repository's own tests (two tokens)
        1 => (sign(), digits(1..=20), prop_oneof![Just(String::new()), exp()]).prop_map(|(s, f, e)| format!("{s}.{f}{e}")),
    ]
    .boxed()
}

fn sample_literals(n: usize, seed: u64) -> Vec<String> {
    let cfg = Config { rng_seed: RngSeed::Fixed(seed), failure_persistence: None, ..Config::default() };
    let mut runner = TestRunner::new(cfg);
    let strat = rust_lit();
    let mut out = Vec::with_capacity(n);
    let mut seen = BTreeSet::new();
    let mut tries = 0;
    while out.len() < n && tries < n * 20 {
        tries += 1;
        let v = strat.new_tree(&mut runner).expect("generate").current();
        if seen.insert(v.clone()) {
            out.push(v);
        }
    }
    out
}

struct Built {
    ok: bool,
    /// line -> error messages
    errors: BTreeMap<usize, Vec<String>>,
    other_errors: Vec<String>,
}

fn cargo_build(proj: &Path, target: &Path, bin: &str, release: bool) -> Built {
    let mut args = vec!["build", "--offline", "--quiet", "--message-format=json", "--bin", bin];
    if release {
        // cargo builds proc macros of a release build without overflow checks / debug assertions
        args.push("--release");
    }
    let out = Command::new("cargo")
        .args(&args)
        .current_dir(proj)
        .env("CARGO_TARGET_DIR", target)
        .env("CARGO_NET_OFFLINE", "true")
        .env_remove("RUSTFLAGS")
        .output()
        .expect("spawn cargo");
    let mut errors: BTreeMap<usize, Vec<String>> = BTreeMap::new();
    let mut other = Vec::new();
    for line in String::from_utf8_lossy(&out.stdout).lines() {
        let v: serde_json::Value = match serde_json::from_str(line) {
            Ok(v) => v,
            Err(_) => continue,
        };
        if v["reason"] != "compiler-message" {
            continue;
        }
        let m = &v["message"];
        if m["level"] != "error" {
            continue;
        }
        let text = m["message"].as_str().unwrap_or("").to_string();
        let spans = m["spans"].as_array().cloned().unwrap_or_default();
        let mut placed = false;
        for sp in &spans {
            let file = sp["file_name"].as_str().unwrap_or("");
            if sp["is_primary"].as_bool().unwrap_or(false) && file.ends_with(&format!("{bin}.rs")) {
                // an error inside a declarative wrapper macro points at the macro definition;
                // the line that matters is the outermost invocation (follow the expansion chain)
                let mut cur = sp.clone();
                let mut l = cur["line_start"].as_u64().unwrap_or(0) as usize;
                let mut guard = 0;
                while cur["expansion"].is_object() && guard < 16 {
                    let outer = cur["expansion"]["span"].clone();
                    if !outer.is_object() {
                        break;
                    }
                    if outer["file_name"].as_str().unwrap_or("").ends_with(&format!("{bin}.rs")) {
                        l = outer["line_start"].as_u64().unwrap_or(l as u64) as usize;
                    }
                    cur = outer;
                    guard += 1;
                }
                errors.entry(l).or_default().push(text.clone());
                placed = true;
            }
        }
        if !placed && !text.starts_with("aborting due to") && !text.starts_with("could not compile") {
            other.push(text);
        }
    }
    if !out.status.success() && errors.is_empty() && other.is_empty() {
        other.push(format!("cargo failed: {}", String::from_utf8_lossy(&out.stderr).chars().take(2000).collect::<String>()));
    }
    Built { ok: out.status.success(), errors, other_errors: other }
}

const FIRST_LINE: usize = 4; // line of the first table entry in the generated source

fn program(lits: &[&String]) -> String {
    let mut s = String::new();
    s.push_str("use fpdec::{Dec, Decimal};\n");
    s.push_str("#[rustfmt::skip]\n");
    s.push_str("const T: &[(u32, Decimal)] = &[\n");
    for (i, l) in lits.iter().enumerate() {
        s.push_str(&format!("({i}, Dec!({l})),\n"));
    }
    s.push_str("];\nfn main() { for (i, d) in T { println!(\"{} {} {}\", i, d.coefficient(), d.n_frac_digits()); } }\n");
    s
}

/// How an accepted literal reaches Dec! through a declarative macro (the proc macro then sees the
/// literal inside an invisible group, or the sign and the literal as separate fragments)
#[derive(Clone, Copy, PartialEq)]
enum Wrap {
    Tt,     // fwd_tt!(L)   -> Dec!(L) token for token
    Lit,    // fwd_lit!(L)  -> Dec!($x) with $x:literal
    NegLit, // neg_lit!(U)  -> Dec!(-$x) with $x:literal, U unsigned: must equal from_str("-U")
}

/// wrapper invocations for the accepted literals: (source expression, expected value, description)
fn wrapped(ok_lits: &[&String], ok_exp: &[(i128, u8)]) -> Vec<(String, (i128, u8), String)> {
    let mut v = Vec::new();
    for (l, e) in ok_lits.iter().zip(ok_exp) {
        v.push((format!("fwd_tt!({l})"), *e, format!("Dec!({l}) forwarded through macro_rules ($($t:tt)*)")));
        let unsigned = !l.starts_with('-') && !l.starts_with('+');
        // a $x:literal fragment takes exactly one rustc literal token (with an optional minus)
        if !single_literal_token(l) {
            continue;
        }
        if !l.starts_with('+') {
            v.push((format!("fwd_lit!({l})"), *e, format!("Dec!($x) with $x:literal = {l}")));
        }
        if unsigned {
            if let Some(n) = runtime(&format!("-{l}")) {
                v.push((format!("neg_lit!({l})"), n, format!("Dec!(-$x) with $x:literal = {l}")));
            }
        }
    }
    let _ = (Wrap::Tt, Wrap::Lit, Wrap::NegLit);
    v
}

const WRAP_FIRST_LINE: usize = 7; // line of the first table entry in the wrapper program

/// digits [. digits] [e|E [+|-] digits], optionally preceded by '-': what rustc lexes as one
/// (possibly negated) integer or float literal without suffix
fn single_literal_token(l: &str) -> bool {
    let b = l.strip_prefix('-').unwrap_or(l).as_bytes();
    let mut i = 0;
    let digits = |i: &mut usize| {
        let s = *i;
        while *i < b.len() && b[*i].is_ascii_digit() {
            *i += 1;
        }
        *i > s
    };
    if !digits(&mut i) {
        return false;
    }
    if i < b.len() && b[i] == b'.' {
        i += 1;
        if !digits(&mut i) {
            return false;
        }
    }
    if i < b.len() && (b[i] == b'e' || b[i] == b'E') {
        i += 1;
        if i < b.len() && (b[i] == b'+' || b[i] == b'-') {
            i += 1;
        }
        if !digits(&mut i) {
            return false;
        }
    }
    i == b.len()
}

fn wrap_program(entries: &[(String, (i128, u8), String)]) -> String {
    let mut s = String::new();
    s.push_str("use fpdec::{Dec, Decimal};
");
    s.push_str("macro_rules! fwd_tt { ($($t:tt)*) => { Dec!($($t)*) }; }
");
    s.push_str("macro_rules! fwd_lit { ($x:literal) => { Dec!($x) }; }
");
    s.push_str("macro_rules! neg_lit { ($x:literal) => { Dec!(-$x) }; }
");
    s.push_str("#[rustfmt::skip]
");
    s.push_str("const T: &[(u32, Decimal)] = &[\n");
    for (i, (src, _, _)) in entries.iter().enumerate() {
        s.push_str(&format!("({i}, {src}),\n"));
    }
    s.push_str("];\nfn main() { for (i, d) in T { println!(\"{} {} {}\", i, d.coefficient(), d.n_frac_digits()); } }\n");
    s
}

fn setup_project(root: &Path) -> (PathBuf, PathBuf) {
    let base = root.join("harness/target/c18");
    let proj = base.join(format!("proj-{}", std::process::id()));
    let _ = std::fs::remove_dir_all(&proj);
    std::fs::create_dir_all(proj.join("src/bin")).expect("mkdir");
    std::fs::write(
        proj.join("Cargo.toml"),
        "[package]\nname = \"c18prog\"\nversion = \"0.0.0\"\nedition = \"2021\"\n\n[dependencies]\nfpdec = { path = \"/repo\" }\n\n[workspace]\n\n[profile.dev]\ndebug = false\nincremental = false\n",
    )
    .unwrap();
    let _ = std::fs::copy("/repo/Cargo.lock", proj.join("Cargo.lock"));
    (proj, base.join("target"))
}

/// What Dec!(lit) must do, from the runtime parser (blank after the sign is not part of the token text).
fn runtime(lit: &str) -> Option<(i128, u8)> {
    let t = if lit.starts_with("- ") || lit.starts_with("+ ") { format!("{}{}", &lit[..1], &lit[2..]) } else { lit.to_string() };
    Decimal::from_str(&t).ok().map(|d| (d.coefficient(), d.n_frac_digits()))
}

/// corner literals that are part of every first batch
const CORNERS: &[&str] = &[
    "1e38", "10e37", "0.1e39", "1e39", "100e36", "1.0e38", "17e37", "18e37", "-1e38", "-1e39", "1E38", "0.01e40", "0.00001e43",
    "170141183460469231731687303715884105727", "170141183460469231731687303715884105728", "-170141183460469231731687303715884105727", "-170141183460469231731687303715884105728",
    "17014118346046923173168730371588410572.7e1", "1.70141183460469231731687303715884105727e38", "1.70141183460469231731687303715884105728e38",
    "0.000000000000000001", "0.0000000000000000001", "1e-18", "1e-19", "1.5e-18", "10e-19", "100e-20", "1.000000000000000000", "1.0000000000000000000",
    "- 1.5", "+ 1.5", "- 17e-5", "-17e-5", "- 0.000000000000000001", "+ 1e38", "- 1e39", "- 0", "+ 0.0",
    "0e99", "0.0e40", "0e5", "0.", "0E0", "1e007", "2.E+014", "2.0E+014", "1e+5", "1E-0", "00.5", "007",
    "500000000000000000000000000000000000000", "440282366920938463463374607431768211456",
    "340282366920938463463374607431768211456", "1e400", "1e-400", "0.0000000000000000000000000000000000000001e22",
];

pub fn run(opts: &Opts) -> ! {
    let t0 = Instant::now();
    let id = "C18";
    if let Some(path) = &opts.replay {
        let s = std::fs::read_to_string(path).unwrap_or_else(|e| {
            println!("INCONCLUSIVE: cannot read {}: {e}", path.display());
            std::process::exit(2)
        });
        let v: serde_json::Value = serde_json::from_str(&s).unwrap_or_else(|e| {
            println!("INCONCLUSIVE: cannot parse replay: {e}");
            std::process::exit(2)
        });
        let lit = v["case"]["lit"].as_str().unwrap_or("").to_string();
        let (viol, _, _) = run_batch(&opts.root, &[lit.clone()], true);
        if viol.is_empty() {
            println!("replay passed: Dec!({lit}) agrees with from_str");
            std::process::exit(0);
        }
        for (l, why) in &viol {
            println!("FAIL [C18/disagree] Dec!({l}): {why}");
        }
        println!("VIOLATION property={id} replay={}", path.display());
        std::process::exit(1);
    }
    let (batches, per) = match opts.tier {
        Tier::Quick => (1usize, 4000usize),
        Tier::Thorough => (30, 4000),
    };
    let per = opts.cases_override.map(|c| c as usize).unwrap_or(per);
    let mut total = 0usize;
    let mut nontrivial: BTreeSet<String> = BTreeSet::new();
    let mut accepted = 0usize;
    let mut rejected = 0usize;
    let mut programs = 0usize;
    let mut samples: Vec<serde_json::Value> = Vec::new();
    let mut violations: Vec<(String, String)> = Vec::new();
    for b in 0..batches {
        let mut lits = sample_literals(per, opts.seed.wrapping_mul(1000003).wrapping_add(b as u64 + 18));
        if b == 0 {
            for c in CORNERS {
                if !lits.iter().any(|l| l == c) {
                    lits.push(c.to_string());
                }
            }
        }
        // a blank between sign and literal (source level) for some signed literals
        let blank: Vec<String> = lits
            .iter()
            .enumerate()
            .filter(|(i, l)| i % 7 == 3 && (l.starts_with('-') || l.starts_with('+')) && !l.starts_with("- ") && !l.starts_with("+ "))
            .map(|(_, l)| format!("{} {}", &l[..1], &l[1..]))
            .collect();
        for bl in blank {
            if !lits.contains(&bl) {
                lits.push(bl);
            }
        }
        total += lits.len();
        for l in &lits {
            if l.contains('.') || l.contains('e') || l.contains('E') {
                nontrivial.insert(l.clone());
            }
        }
        let (viol, acc, progs) = run_batch(&opts.root, &lits, false);
        accepted += acc;
        rejected += lits.len() - acc;
        programs += progs;
        if samples.len() < 12 {
            for l in lits.iter().take(6) {
                samples.push(serde_json::json!({"literal": l, "from_str": format!("{:?}", runtime(l))}));
            }
        }
        violations.extend(viol);
        if !violations.is_empty() {
            break;
        }
    }
    let wall = t0.elapsed().as_secs_f64();
    let mut replay_paths = Vec::new();
    for (lit, why) in &violations {
        let dir = opts.root.join("replays").join(id);
        let _ = std::fs::create_dir_all(&dir);
        let p = dir.join(format!("{:016x}.json", engine::case_hash(lit)));
        let _ = std::fs::write(&p, serde_json::to_string_pretty(&serde_json::json!({"property": id, "case": {"lit": lit}, "failures": [["C18/disagree", why]]})).unwrap());
        println!("FAIL [C18/disagree] Dec!({lit}): {why}");
        replay_paths.push(p);
    }
    let ev = serde_json::json!({
        "property_id": id,
        "tier": opts.tier.name(),
        "seed": opts.seed as i64,
        "level": "exploration",
        "coverage": {
            "evaluations": total,
            "distinct_nontrivial": nontrivial.len(),
            "rule": "Generated programs: literal texts from a grammar restricted to what rustc lexes as one optional sign plus one unsuffixed integer/float literal (digits up to 40 places, exponents -400..=400 weighted to -40..=40, leading zeros, boundary coefficients around 2^127/2^128/10^38/10^39 with points and compensating exponents, scale limits 17/18/19, zero forms) plus a few underscore/radix/suffix/fraction-first forms. Each batch becomes two binaries of a scratch crate, built in the dev profile and again with --release (cargo builds the proc macro of a release build without overflow checks): P_ok (literals from_str accepts) must compile and print the same (coefficient, scale) as from_str; P_all (all literals) must produce a compiler error exactly on the lines of the literals from_str rejects; P_wrap hands every accepted literal to Dec! through declarative macros (token forwarding, a $x:literal fragment, and Dec!(-$x) for unsigned literals, where the proc macro sees invisible groups and separate sign tokens) and must print from_str's values. Non-trivial: literal has a fraction or an exponent; distinct by text.",
            "samples": samples,
            "programs": programs,
            "accepted_by_from_str": accepted,
            "rejected_by_from_str": rejected,
            "batches": batches,
        },
        "assumptions": ["a blank between sign and literal is not part of the token text", "rustc reports each panicking proc-macro invocation as a separate error with its line", "one compiler (the installed stable rustc)"],
        "wall_s": wall,
        "violations": violations.len(),
    });
    if !opts.no_evidence {
        let _ = std::fs::create_dir_all(opts.root.join("evidence"));
        if let Err(e) = std::fs::write(opts.root.join("evidence/C18.json"), serde_json::to_string_pretty(&ev).unwrap()) {
            println!("INCONCLUSIVE: cannot write evidence: {e}");
            std::process::exit(2);
        }
    }
    println!("C18 tier={} seed={} literals={} accepted={} rejected={} programs={} distinct_nontrivial={} wall={:.1}s", opts.tier.name(), opts.seed, total, accepted, rejected, programs, nontrivial.len(), wall);
    if !violations.is_empty() {
        for p in replay_paths.iter().take(8) {
            println!("VIOLATION property={id} replay={}", p.display());
        }
        std::process::exit(1);
    }
    if accepted == 0 || rejected == 0 {
        println!("INCONCLUSIVE: generator produced no accepted or no rejected literals");
        std::process::exit(2);
    }
    std::process::exit(0);
}

/// returns (violations, number accepted by from_str, programs compiled)
fn run_batch(root: &Path, lits: &[String], verbose: bool) -> (Vec<(String, String)>, usize, usize) {
    let (proj, target) = setup_project(root);
    let mut viol: Vec<(String, String)> = Vec::new();
    let expected: Vec<Option<(i128, u8)>> = lits.iter().map(|l| runtime(l)).collect();
    let ok_lits: Vec<&String> = lits.iter().zip(&expected).filter(|(_, e)| e.is_some()).map(|(l, _)| l).collect();
    let ok_exp: Vec<(i128, u8)> = expected.iter().filter_map(|e| *e).collect();
    let all_lits: Vec<&String> = lits.iter().collect();
    std::fs::write(proj.join("src/bin/p_ok.rs"), program(&ok_lits)).unwrap();
    std::fs::write(proj.join("src/bin/p_all.rs"), program(&all_lits)).unwrap();
    let mut programs = 0;
    for release in [false, true] {
        let pname = if release { "release profile (proc macro built without overflow checks)" } else { "dev profile" };
        // ---- P_ok must compile and print from_str's values
        if !ok_lits.is_empty() {
            programs += 1;
            let b = cargo_build(&proj, &target, "p_ok", release);
            if !b.other_errors.is_empty() {
                println!("INCONCLUSIVE: unexpected compiler output for P_ok: {:?}", b.other_errors.iter().take(3).collect::<Vec<_>>());
                let _ = std::fs::remove_dir_all(&proj);
                std::process::exit(2);
            }
            for (line, msgs) in &b.errors {
                if *line >= FIRST_LINE && line - FIRST_LINE < ok_lits.len() {
                    let l = ok_lits[line - FIRST_LINE];
                    viol.push((l.clone(), format!("[{pname}] from_str accepts it as {:?} but Dec! fails to compile: {}", ok_exp[line - FIRST_LINE], msgs.join("; "))));
                } else {
                    println!("INCONCLUSIVE: compiler error outside the literal table (line {line}): {msgs:?}");
                    let _ = std::fs::remove_dir_all(&proj);
                    std::process::exit(2);
                }
            }
            if b.ok {
                let exe = target.join(if release { "release/p_ok" } else { "debug/p_ok" });
                let out = Command::new(&exe).output().expect("run p_ok");
                let text = String::from_utf8_lossy(&out.stdout);
                let mut n = 0;
                for line in text.lines() {
                    let f: Vec<&str> = line.split(' ').collect();
                    if f.len() != 3 {
                        continue;
                    }
                    let i: usize = f[0].parse().unwrap();
                    let c: i128 = f[1].parse().unwrap();
                    let s: u8 = f[2].parse().unwrap();
                    n += 1;
                    if verbose {
                        println!("  Dec!({}) = ({c}, {s}); from_str = {:?}", ok_lits[i], ok_exp[i]);
                    }
                    if (c, s) != ok_exp[i] {
                        viol.push((ok_lits[i].clone(), format!("[{pname}] Dec! gives ({c}, {s}) but from_str gives {:?}", ok_exp[i])));
                    }
                }
                if n != ok_lits.len() {
                    println!("INCONCLUSIVE: P_ok printed {n} of {} lines (status {:?})", ok_lits.len(), out.status);
                    let _ = std::fs::remove_dir_all(&proj);
                    std::process::exit(2);
                }
            }
        }
        // ---- P_wrap: the accepted literals handed to Dec! through declarative macros
        if !ok_lits.is_empty() {
            let entries = wrapped(&ok_lits, &ok_exp);
            std::fs::write(proj.join("src/bin/p_wrap.rs"), wrap_program(&entries)).unwrap();
            programs += 1;
            let b = cargo_build(&proj, &target, "p_wrap", release);
            if !b.other_errors.is_empty() {
                println!("INCONCLUSIVE: unexpected compiler output for P_wrap: {:?}", b.other_errors.iter().take(3).collect::<Vec<_>>());
                let _ = std::fs::remove_dir_all(&proj);
                std::process::exit(2);
            }
            for (line, msgs) in &b.errors {
                if *line >= WRAP_FIRST_LINE && line - WRAP_FIRST_LINE < entries.len() {
                    let (src, e, what) = &entries[line - WRAP_FIRST_LINE];
                    viol.push((src.clone(), format!("[{pname}] {what}: from_str gives {e:?} but the invocation fails to compile: {}", msgs.join("; "))));
                } else {
                    println!("INCONCLUSIVE: compiler error outside the table of P_wrap (line {line}): {msgs:?}");
                    let _ = std::fs::remove_dir_all(&proj);
                    std::process::exit(2);
                }
            }
            if b.ok {
                let exe = target.join(if release { "release/p_wrap" } else { "debug/p_wrap" });
                let out = Command::new(&exe).output().expect("run p_wrap");
                let text = String::from_utf8_lossy(&out.stdout);
                let mut n = 0;
                for line in text.lines() {
                    let f: Vec<&str> = line.split(' ').collect();
                    if f.len() != 3 {
                        continue;
                    }
                    let i: usize = f[0].parse().unwrap();
                    let c: i128 = f[1].parse().unwrap();
                    let sc: u8 = f[2].parse().unwrap();
                    n += 1;
                    let (src, e, what) = &entries[i];
                    if verbose {
                        println!("  {src} = ({c}, {sc}); expected {e:?}");
                    }
                    if (c, sc) != *e {
                        viol.push((src.clone(), format!("[{pname}] {what} gives ({c}, {sc}) but from_str gives {e:?}")));
                    }
                }
                if n != entries.len() {
                    println!("INCONCLUSIVE: P_wrap printed {n} of {} lines (status {:?})", entries.len(), out.status);
                    let _ = std::fs::remove_dir_all(&proj);
                    std::process::exit(2);
                }
            }
        }
        // ---- P_all: error lines == rejected literals
        programs += 1;
        let b = cargo_build(&proj, &target, "p_all", release);
        if !b.other_errors.is_empty() {
            println!("INCONCLUSIVE: unexpected compiler output for P_all: {:?}", b.other_errors.iter().take(3).collect::<Vec<_>>());
            let _ = std::fs::remove_dir_all(&proj);
            std::process::exit(2);
        }
        for (i, l) in lits.iter().enumerate() {
            let line = FIRST_LINE + i;
            let has_err = b.errors.contains_key(&line);
            if verbose {
                println!("  P_all line {line}: Dec!({l}) compile error: {has_err}; from_str: {:?}", expected[i]);
            }
            match (expected[i], has_err) {
                (None, false) => viol.push((l.clone(), format!("[{pname}] from_str rejects it but Dec! compiles"))),
                (Some(e), true) => {
                    if !viol.iter().any(|(v, _)| v == l) {
                        viol.push((l.clone(), format!("[{pname}] from_str accepts it as {e:?} but Dec! fails to compile: {}", b.errors[&line].join("; "))));
                    }
                }
                _ => {}
            }
        }
        for line in b.errors.keys() {
            if *line < FIRST_LINE || line - FIRST_LINE >= lits.len() {
                println!("INCONCLUSIVE: compiler error outside the literal table (line {line}): {:?}", b.errors[line]);
                let _ = std::fs::remove_dir_all(&proj);
                std::process::exit(2);
            }
        }
    }
    let _ = std::fs::remove_dir_all(&proj);
    (viol, ok_lits.len(), programs)
}
