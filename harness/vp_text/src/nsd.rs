//! A minimal NON-self-describing serde format (in the way of bincode / postcard): the wire
//! carries no type tags, so `Deserializer::deserialize_any` cannot work and is an error; a
//! string is a little-endian u32 length followed by UTF-8 bytes; integers are fixed width.
//! Used by C07: with feature serde-as-str a Decimal must round-trip through any serde format.

use serde::de::{self, Visitor};
use serde::ser;
use std::fmt;

#[derive(Debug)]
pub struct Error(pub String);

impl fmt::Display for Error {
    fn fmt(&self, f: &mut fmt::Formatter<'_>) -> fmt::Result {
        write!(f, "{}", self.0)
    }
}
impl std::error::Error for Error {}
impl ser::Error for Error {
    fn custom<T: fmt::Display>(msg: T) -> Self {
        Error(msg.to_string())
    }
}
impl de::Error for Error {
    fn custom<T: fmt::Display>(msg: T) -> Self {
        Error(msg.to_string())
    }
}

pub struct Ser {
    pub out: Vec<u8>,
    pub human: bool,
}

macro_rules! ser_int {
    ($($m:ident $t:ty),*) => {$(
        fn $m(self, v: $t) -> Result<(), Error> {
            self.out.extend_from_slice(&v.to_le_bytes());
            Ok(())
        }
    )*};
}

fn unsupported<T>(what: &str) -> Result<T, Error> {
    Err(Error(format!("the test format does not support {what}")))
}

impl<'a> ser::Serializer for &'a mut Ser {
    type Ok = ();
    type Error = Error;
    type SerializeSeq = ser::Impossible<(), Error>;
    type SerializeTuple = ser::Impossible<(), Error>;
    type SerializeTupleStruct = ser::Impossible<(), Error>;
    type SerializeTupleVariant = ser::Impossible<(), Error>;
    type SerializeMap = ser::Impossible<(), Error>;
    type SerializeStruct = ser::Impossible<(), Error>;
    type SerializeStructVariant = ser::Impossible<(), Error>;

    ser_int!(serialize_i8 i8, serialize_i16 i16, serialize_i32 i32, serialize_i64 i64, serialize_i128 i128, serialize_u8 u8, serialize_u16 u16, serialize_u32 u32, serialize_u64 u64, serialize_u128 u128);

    fn serialize_bool(self, v: bool) -> Result<(), Error> {
        self.out.push(v as u8);
        Ok(())
    }
    fn serialize_f32(self, v: f32) -> Result<(), Error> {
        self.out.extend_from_slice(&v.to_le_bytes());
        Ok(())
    }
    fn serialize_f64(self, v: f64) -> Result<(), Error> {
        self.out.extend_from_slice(&v.to_le_bytes());
        Ok(())
    }
    fn serialize_char(self, v: char) -> Result<(), Error> {
        self.serialize_str(&v.to_string())
    }
    fn serialize_str(self, v: &str) -> Result<(), Error> {
        self.out.extend_from_slice(&(v.len() as u32).to_le_bytes());
        self.out.extend_from_slice(v.as_bytes());
        Ok(())
    }
    fn serialize_bytes(self, v: &[u8]) -> Result<(), Error> {
        self.out.extend_from_slice(&(v.len() as u32).to_le_bytes());
        self.out.extend_from_slice(v);
        Ok(())
    }
    fn serialize_none(self) -> Result<(), Error> {
        self.out.push(0);
        Ok(())
    }
    fn serialize_some<T: ?Sized + ser::Serialize>(self, v: &T) -> Result<(), Error> {
        self.out.push(1);
        v.serialize(self)
    }
    fn serialize_unit(self) -> Result<(), Error> {
        Ok(())
    }
    fn serialize_unit_struct(self, _: &'static str) -> Result<(), Error> {
        Ok(())
    }
    fn serialize_unit_variant(self, _: &'static str, i: u32, _: &'static str) -> Result<(), Error> {
        self.serialize_u32(i)
    }
    fn serialize_newtype_struct<T: ?Sized + ser::Serialize>(self, _: &'static str, v: &T) -> Result<(), Error> {
        v.serialize(self)
    }
    fn serialize_newtype_variant<T: ?Sized + ser::Serialize>(self, _: &'static str, _: u32, _: &'static str, _: &T) -> Result<(), Error> {
        unsupported("enum variants")
    }
    fn serialize_seq(self, _: Option<usize>) -> Result<Self::SerializeSeq, Error> {
        unsupported("sequences")
    }
    fn serialize_tuple(self, _: usize) -> Result<Self::SerializeTuple, Error> {
        unsupported("tuples")
    }
    fn serialize_tuple_struct(self, _: &'static str, _: usize) -> Result<Self::SerializeTupleStruct, Error> {
        unsupported("tuple structs")
    }
    fn serialize_tuple_variant(self, _: &'static str, _: u32, _: &'static str, _: usize) -> Result<Self::SerializeTupleVariant, Error> {
        unsupported("tuple variants")
    }
    fn serialize_map(self, _: Option<usize>) -> Result<Self::SerializeMap, Error> {
        unsupported("maps")
    }
    fn serialize_struct(self, _: &'static str, _: usize) -> Result<Self::SerializeStruct, Error> {
        unsupported("structs")
    }
    fn serialize_struct_variant(self, _: &'static str, _: u32, _: &'static str, _: usize) -> Result<Self::SerializeStructVariant, Error> {
        unsupported("struct variants")
    }
    fn is_human_readable(&self) -> bool {
        self.human
    }
}

pub struct De<'de> {
    pub input: &'de [u8],
    /// hand strings to the visitor as borrowed (`visit_borrowed_str`) or as owned `String`
    pub owned: bool,
    pub human: bool,
}

impl<'de> De<'de> {
    fn take(&mut self, n: usize) -> Result<&'de [u8], Error> {
        if self.input.len() < n {
            return Err(Error("unexpected end of input".into()));
        }
        let (a, b) = self.input.split_at(n);
        self.input = b;
        Ok(a)
    }
    fn take_len(&mut self) -> Result<usize, Error> {
        let b = self.take(4)?;
        Ok(u32::from_le_bytes([b[0], b[1], b[2], b[3]]) as usize)
    }
}

macro_rules! de_int {
    ($($m:ident $v:ident $t:ty),*) => {$(
        fn $m<V: Visitor<'de>>(self, visitor: V) -> Result<V::Value, Error> {
            let b = self.take(std::mem::size_of::<$t>())?;
            let mut a = [0u8; std::mem::size_of::<$t>()];
            a.copy_from_slice(b);
            visitor.$v(<$t>::from_le_bytes(a))
        }
    )*};
}

impl<'de, 'a> de::Deserializer<'de> for &'a mut De<'de> {
    type Error = Error;

    fn deserialize_any<V: Visitor<'de>>(self, _: V) -> Result<V::Value, Error> {
        unsupported("Deserializer::deserialize_any (the format is not self-describing)")
    }
    fn deserialize_ignored_any<V: Visitor<'de>>(self, _: V) -> Result<V::Value, Error> {
        unsupported("Deserializer::deserialize_ignored_any (the format is not self-describing)")
    }
    de_int!(deserialize_i8 visit_i8 i8, deserialize_i16 visit_i16 i16, deserialize_i32 visit_i32 i32, deserialize_i64 visit_i64 i64, deserialize_i128 visit_i128 i128,
            deserialize_u8 visit_u8 u8, deserialize_u16 visit_u16 u16, deserialize_u32 visit_u32 u32, deserialize_u64 visit_u64 u64, deserialize_u128 visit_u128 u128,
            deserialize_f32 visit_f32 f32, deserialize_f64 visit_f64 f64);
    fn deserialize_bool<V: Visitor<'de>>(self, visitor: V) -> Result<V::Value, Error> {
        let b = self.take(1)?;
        visitor.visit_bool(b[0] != 0)
    }
    fn deserialize_char<V: Visitor<'de>>(self, visitor: V) -> Result<V::Value, Error> {
        self.deserialize_str(visitor)
    }
    fn deserialize_str<V: Visitor<'de>>(self, visitor: V) -> Result<V::Value, Error> {
        let n = self.take_len()?;
        let b = self.take(n)?;
        let s = std::str::from_utf8(b).map_err(|e| Error(e.to_string()))?;
        if self.owned {
            visitor.visit_string(s.to_string())
        } else {
            visitor.visit_borrowed_str(s)
        }
    }
    fn deserialize_string<V: Visitor<'de>>(self, visitor: V) -> Result<V::Value, Error> {
        self.deserialize_str(visitor)
    }
    fn deserialize_bytes<V: Visitor<'de>>(self, visitor: V) -> Result<V::Value, Error> {
        let n = self.take_len()?;
        let b = self.take(n)?;
        if self.owned {
            visitor.visit_byte_buf(b.to_vec())
        } else {
            visitor.visit_borrowed_bytes(b)
        }
    }
    fn deserialize_byte_buf<V: Visitor<'de>>(self, visitor: V) -> Result<V::Value, Error> {
        self.deserialize_bytes(visitor)
    }
    fn deserialize_option<V: Visitor<'de>>(self, visitor: V) -> Result<V::Value, Error> {
        let b = self.take(1)?;
        if b[0] == 0 {
            visitor.visit_none()
        } else {
            visitor.visit_some(self)
        }
    }
    fn deserialize_unit<V: Visitor<'de>>(self, visitor: V) -> Result<V::Value, Error> {
        visitor.visit_unit()
    }
    fn deserialize_unit_struct<V: Visitor<'de>>(self, _: &'static str, visitor: V) -> Result<V::Value, Error> {
        visitor.visit_unit()
    }
    fn deserialize_newtype_struct<V: Visitor<'de>>(self, _: &'static str, visitor: V) -> Result<V::Value, Error> {
        visitor.visit_newtype_struct(self)
    }
    fn deserialize_seq<V: Visitor<'de>>(self, _: V) -> Result<V::Value, Error> {
        unsupported("sequences")
    }
    fn deserialize_tuple<V: Visitor<'de>>(self, _: usize, _: V) -> Result<V::Value, Error> {
        unsupported("tuples")
    }
    fn deserialize_tuple_struct<V: Visitor<'de>>(self, _: &'static str, _: usize, _: V) -> Result<V::Value, Error> {
        unsupported("tuple structs")
    }
    fn deserialize_map<V: Visitor<'de>>(self, _: V) -> Result<V::Value, Error> {
        unsupported("maps")
    }
    fn deserialize_struct<V: Visitor<'de>>(self, _: &'static str, _: &'static [&'static str], _: V) -> Result<V::Value, Error> {
        unsupported("structs")
    }
    fn deserialize_enum<V: Visitor<'de>>(self, _: &'static str, _: &'static [&'static str], _: V) -> Result<V::Value, Error> {
        unsupported("enums")
    }
    fn deserialize_identifier<V: Visitor<'de>>(self, visitor: V) -> Result<V::Value, Error> {
        self.deserialize_str(visitor)
    }
    fn is_human_readable(&self) -> bool {
        self.human
    }
}

/// serialize `v`, return the wire bytes
pub fn to_bytes<T: ser::Serialize>(v: &T, human: bool) -> Result<Vec<u8>, Error> {
    let mut s = Ser { out: Vec::new(), human };
    v.serialize(&mut s)?;
    Ok(s.out)
}

/// deserialize a `T` (all input must be consumed)
pub fn from_bytes<'de, T: de::Deserialize<'de>>(b: &'de [u8], owned: bool, human: bool) -> Result<T, Error> {
    let mut d = De { input: b, owned, human };
    let t = T::deserialize(&mut d)?;
    if !d.input.is_empty() {
        return Err(Error("trailing bytes".into()));
    }
    Ok(t)
}
