//! `vcheck selftest-dump N [seed]`: prints oracle inputs and outputs, one per
//! line, for tools/oracle_selftest.py (which recomputes them with Python's
//! fractions / decimal modules).  Never decides a property.

use vcore::common::*;
use oracle::float::{ref_from_float, RefFromFloat, F32, F64};
use oracle::text::{ref_format, ref_parse, Align, RefParse, Spec};
use oracle::{round_exact, Big, Mode};
use proptest::prelude::*;
use proptest::strategy::ValueTree;
use proptest::test_runner::{Config, RngSeed, TestRunner};

fn hexs(s: &str) -> String {
    s.bytes().map(|b| format!("{b:02x}")).collect()
}

pub fn dump(n: usize, seed: u64) {
    let cfg = Config { rng_seed: RngSeed::Fixed(seed), failure_persistence: None, ..Config::default() };
    let mut r = TestRunner::new(cfg);
    let strat = (arb_coeff(), arb_coeff(), arb_scale(), arb_scale(), 0u8..8, 0u8..=40, crate::c06::C06.strategy_for_selftest(), any::<u64>(), any::<u32>(), -140i32..=135, 0u32..=38);
    for _ in 0..n {
        let (a, b, s, t, mode, prec, lit, rb, rw, e, k) = strat.new_tree(&mut r).unwrap().current();
        let md = Mode::from_index(mode);
        // R: exact rational rounding (general denominator and power of ten)
        let den = if b == 0 { 7 } else { b };
        println!("R {} {} {} {}", a, den, mode, round_exact(&Big::from_i128(a), &Big::from_i128(den), md));
        println!("R {} {} {} {}", a, Big::pow10(k), mode, round_exact(&Big::from_i128(a), &Big::pow10(k), md));
        // big operands (beyond 128 bit)
        let wide = Big::from_i128(a).mul(&Big::from_i128(b)).add(&Big::from_i128(7));
        println!("R {} {} {} {}", wide, den, mode, round_exact(&wide, &Big::from_i128(den), md));
        // P: reference parser
        let p = match ref_parse(&lit) {
            RefParse::Ok { coeff, scale } => format!("ok {coeff} {scale}"),
            RefParse::Err { empty, .. } => format!("err {}", if empty { "empty" } else { "other" }),
            RefParse::AmbiguousZero => "ambiguous".to_string(),
        };
        println!("P {} {}", if lit.is_empty() { "-".to_string() } else { hexs(&lit) }, p);
        // F: reference formatter (no padding)
        let spec = Spec { fill: ' ', align: Align::Default, plus: false, zero: false, width: None, precision: Some(prec as usize) };
        println!("F {} {} {} {} {}", a, s, mode, prec, ref_format(a, s, md, &spec));
        let spec = Spec { precision: None, ..spec };
        println!("F {} {} {} - {}", b, t, mode, ref_format(b, t, md, &spec));
        // N: nearest float
        println!("N64 {} {} {:x}", a, s, F64.nearest_bits(&Big::from_i128(a), &Big::pow10(s as u32)));
        println!("N32 {} {} {:x}", b, t, F32.nearest_bits(&Big::from_i128(b), &Big::pow10(t as u32)));
        // T: float -> decimal
        let bits64 = if rb % 3 == 0 { rb } else { ((rb >> 63) << 63) | (((e + 1023) as u64) << 52) | (rb & ((1 << 52) - 1)) };
        let show = |r: RefFromFloat| match r {
            RefFromFloat::NotANumber => "nan".to_string(),
            RefFromFloat::Infinite => "inf".to_string(),
            RefFromFloat::Ok { coeff, scale } => format!("ok {coeff} {scale}"),
            RefFromFloat::Overflow => "overflow".to_string(),
            RefFromFloat::EdgeMin => "edgemin".to_string(),
        };
        println!("T64 {:x} {}", bits64, show(ref_from_float(&F64, bits64)));
        println!("T32 {:x} {}", rw, show(ref_from_float(&F32, rw as u64)));
    }
}
