//! C07 - Display/ToString is canonical and round-trips through the parser.

use vcore::common::*;
use engine::{catch, Ctx, Prop, Tier};
use fpdec::Decimal;
use oracle::text::ref_to_string;
use proptest::prelude::*;
use serde::{Deserialize, Serialize};
use std::str::FromStr;

#[derive(Clone, Debug, Hash, PartialEq, Eq, Serialize, Deserialize)]
pub struct Case {
    pub x: D,
}

pub struct C07;

fn weighted_d() -> BoxedStrategy<D> {
    prop_oneof![
        6 => arb_d(),
        2 => (arb_word_coeff(), arb_scale()).prop_map(|(c, s)| D::new(c, s)),
        // values in (-1, 1): fractions with leading zeros
        3 => (1u8..=18, any::<u64>(), 0u32..=63, any::<bool>()).prop_map(|(s, r, sh, neg)| {
            let lim = 10i128.pow(s as u32);
            let c = ((r >> sh) as i128) % lim;
            D::new(if neg { -c } else { c }, s)
        }),
        // 39-digit coefficients
        2 => (0i128..=70141183460469231731687303715884105727i128, arb_scale(), any::<bool>()).prop_map(|(r, s, neg)| {
            let c = 100000000000000000000000000000000000000i128 + r;
            D::new(if neg { -c } else { c }, s)
        }),
        // non-normalised zero, trailing zeros
        1 => (0u8..=18).prop_map(|s| D::new(0, s)),
        1 => (1u8..=18, 1i128..=999, any::<bool>()).prop_map(|(s, m, neg)| {
            let c = m * 10i128.pow(s as u32);
            D::new(if neg { -c } else { c }, s)
        }),
    ]
    .boxed()
}

/// Before the real formatting calls of a case: format the value once into a sink that fails
/// after a few bytes (an I/O error in the middle of a write). Whatever happens there - an error
/// is the expected outcome - must not influence any later formatting on the thread.
pub fn failing_sink_first(d: &Decimal, h: u64) {
    struct Failing(usize);
    impl std::fmt::Write for Failing {
        fn write_str(&mut self, s: &str) -> std::fmt::Result {
            if s.len() > self.0 {
                self.0 = 0;
                return Err(std::fmt::Error);
            }
            self.0 -= s.len();
            Ok(())
        }
    }
    let budget = (h % 7) as usize;
    let _ = catch(|| {
        let mut w = Failing(budget);
        let _ = std::fmt::Write::write_fmt(&mut w, format_args!("{}", d));
        let mut w = Failing(budget);
        let _ = std::fmt::Write::write_fmt(&mut w, format_args!("{:>12.3}", d));
    });
}

impl Prop for C07 {
    type Case = Case;
    fn id(&self) -> &'static str {
        "C07"
    }
    fn rule(&self) -> String {
        "Generated: Decimal representations from all coefficient classes, extra weight on values in (-1, 1) (fractions with leading zeros), 39-digit coefficients, non-normalised zero and trailing zeros. \
         to_string(), String::from(d), format!(\"{}\"), write! into a user fmt::Write / io::Write, Display through references and Box<dyn Display>, and the text inside Debug's Dec!(..) (also inside a derived struct with {:#?}) (also when Debug is invoked with precision / width / sign / zero / alternate options, directly or through a tuple / Option) must equal a reference string built from the decimal digits of |coefficient| (integer formatting of std, padding, point insertion); \
         Decimal::from_str of that string must return exactly (coefficient, scale); with serde-as-str also through a minimal non-self-describing serde format (length-prefixed string, deserialize_any unsupported, borrowed and owned strings); serde_json::to_string is the JSON string of the same text and from_str of it returns (coefficient, scale). \
         Non-trivial: scale > 0. Distinct: hash of (coefficient, scale)."
            .into()
    }
    fn assumptions(&self) -> Vec<String> {
        vec!["operands |coefficient| <= 2^127-1".into(), "the return leg uses the parser (C06); canonical strings never contain the forms C06 found defective".into()]
    }
    fn cases(&self, tier: Tier) -> u64 {
        match tier {
            Tier::Quick => 1 << 20,
            Tier::Thorough => 1 << 25,
        }
    }
    fn strategy(&self, _tier: Tier) -> BoxedStrategy<Case> {
        weighted_d().prop_map(|x| Case { x }).boxed()
    }
    fn mandatory_labels(&self, _tier: Tier) -> Vec<&'static str> {
        vec!["scale>0", "scale=0", "negative", "abs<1", "zero", "39-digits"]
    }
    fn builtin_corpus(&self) -> Vec<Case> {
        vec![
            Case { x: D::new(0, 0) },
            Case { x: D::new(0, 18) },
            Case { x: D::new(-1, 18) },
            Case { x: D::new(-4247228607487600, 18) },
            Case { x: D::new(MAXC, 0) },
            Case { x: D::new(-MAXC, 18) },
            Case { x: D::new(-5, 1) },
            Case { x: D::new(1000, 3) },
        ]
    }

    fn check(&self, case: &Case, ctx: &mut Ctx) {
        let _ambient = ambient_mode(case, ctx);
        let x = case.x;
        let d = x.dec();
        let want = ref_to_string(x.c, x.s);
        failing_sink_first(&d, engine::case_hash(case));
        if x.s > 0 {
            ctx.label("scale>0");
            ctx.nontrivial();
        } else {
            ctx.label("scale=0");
        }
        if x.c < 0 {
            ctx.label("negative");
        }
        if x.c == 0 {
            ctx.label("zero");
        } else if x.c.unsigned_abs() < 10u128.pow(x.s as u32) {
            ctx.label("abs<1");
        }
        if x.c.unsigned_abs() >= 10u128.pow(38) {
            ctx.label("39-digits");
        }
        let outs: Vec<(&'static str, Result<String, String>)> = vec![
            ("to_string()", catch(|| d.to_string())),
            ("ToString::to_string(&d)", catch(|| ToString::to_string(&d))),
            ("(&d).to_string()", catch(|| (&d).to_string())),
            ("String::from(d)", catch(|| String::from(d))),
            ("format!(\"{}\")", catch(|| format!("{}", d))),
            ("Debug", catch(|| {
                let t = format!("{:?}", d);
                match t.strip_prefix("Dec!(").and_then(|r| r.strip_suffix(')')) {
                    Some(inner) => inner.to_string(),
                    None => format!("<no Dec!(..) wrapper: {t}>"),
                }
            })),
            ("serde_json::to_string", catch(|| match serde_json::to_string(&d) {
                Ok(j) => match serde_json::from_str::<String>(&j) {
                    Ok(inner) => inner,
                    Err(_) => format!("<not a JSON string: {j}>"),
                },
                Err(e) => format!("<serialize error {e}>"),
            })),
        ];
        // Debug must show the same text whatever formatting options the caller (or an
        // enclosing container's {:.3?}) passes down; padding outside Dec!(..) is ignored
        let inner = |t: String| -> String {
            // text between "Dec!(" and the first ')' after it (the canonical text never contains ')')
            match t.find("Dec!(") {
                Some(a) => match t[a + 5..].find(')') {
                    Some(b) => t[a + 5..a + 5 + b].to_string(),
                    None => format!("<unterminated Dec!(..): {t}>"),
                },
                None => format!("<no Dec!(..) wrapper: {t}>"),
            }
        };
        let mut outs = outs;
        outs.push(("Debug {:.2?}", catch(|| inner(format!("{:.2?}", d)))));
        outs.push(("Debug {:.0?}", catch(|| inner(format!("{:.0?}", d)))));
        outs.push(("Debug {:12?}", catch(|| inner(format!("{:12?}", d)))));
        outs.push(("Debug {:+?}", catch(|| inner(format!("{:+?}", d)))));
        outs.push(("Debug {:#?}", catch(|| inner(format!("{:#?}", d)))));
        outs.push(("Debug {:<30.25?}", catch(|| inner(format!("{:<30.25?}", d)))));
        outs.push(("Debug {:08.3?}", catch(|| inner(format!("{:08.3?}", d)))));
        outs.push(("Debug in a tuple {:.3?}", catch(|| inner(format!("{:.3?}", (0.5f64, d))))));
        outs.push(("Debug in Some {:10.1?}", catch(|| inner(format!("{:10.1?}", Some(d))))));
        outs.push(("Debug in a struct {:#?}", catch(|| {
            #[derive(Debug)]
            #[allow(dead_code)]
            struct Holder {
                amount: Decimal,
                items: Vec<Decimal>,
            }
            let t = format!("{:#?}", Holder { amount: d, items: vec![d] });
            // both occurrences must show the canonical text
            let first = inner(t.clone());
            let rest = t.find("Dec!(").map(|a| t[a + 5..].to_string()).unwrap_or_default();
            let second = inner(rest);
            if first == second { first } else { format!("<{first}> vs <{second}>") }
        })));
        // other writers: a user fmt::Write that receives the pieces one by one, an io::Write,
        // Display through a reference / Box / format_args!
        outs.push(("write! into a chunk-collecting fmt::Write", catch(|| {
            struct Chunks(Vec<String>);
            impl std::fmt::Write for Chunks {
                fn write_str(&mut self, s: &str) -> std::fmt::Result {
                    self.0.push(s.to_string());
                    Ok(())
                }
            }
            let mut w = Chunks(Vec::new());
            match std::fmt::Write::write_fmt(&mut w, format_args!("{}", d)) {
                Ok(()) => w.0.concat(),
                Err(_) => "<fmt error>".to_string(),
            }
        })));
        outs.push(("write! into io::Write", catch(|| {
            let mut v: Vec<u8> = Vec::new();
            match std::io::Write::write_fmt(&mut v, format_args!("{}", d)) {
                Ok(()) => String::from_utf8_lossy(&v).into_owned(),
                Err(_) => "<io error>".to_string(),
            }
        })));
        outs.push(("format!(\"{}\", &&d)", catch(|| format!("{}", &&d))));
        outs.push(("Box<dyn Display>", catch(|| {
            let b: Box<dyn std::fmt::Display> = Box::new(d);
            format!("{b}")
        })));
        outs.push(("format!(\"[{}|{}]\")", catch(|| {
            let t = format!("[{}|{}]", d, d);
            let half = (t.len() - 3) / 2;
            if t.len() >= 3 && t[1..1 + half] == t[2 + half..t.len() - 1] { t[1..1 + half].to_string() } else { format!("<{t}>") }
        })));
        for (name, r) in outs {
            ctx.sub();
            ctx.note(|| format!("{name}: expected {want:?}, observed {r:?}"));
            match r {
                Ok(s) if s == want => {}
                Ok(s) => ctx.fail("C07/not-canonical", format!("{x} {name} = {s:?}; expected {want:?}")),
                Err(p) => ctx.fail("C07/panics", format!("{x} {name} panicked: {p}")),
            }
        }
        // return legs
        let back: Vec<(&'static str, Result<Option<(i128, u8)>, String>)> = vec![
            ("from_str(canonical)", catch(|| Decimal::from_str(&want).ok().map(|r| (r.coefficient(), r.n_frac_digits())))),
            ("from_str(to_string())", catch(|| Decimal::from_str(&d.to_string()).ok().map(|r| (r.coefficient(), r.n_frac_digits())))),
            ("serde_json round trip", catch(|| {
                let j = serde_json::to_string(&d).ok()?;
                serde_json::from_str::<Decimal>(&j).ok().map(|r| (r.coefficient(), r.n_frac_digits()))
            })),
            ("serde_json value round trip", catch(|| {
                let v = serde_json::to_value(d).ok()?;
                serde_json::from_value::<Decimal>(v).ok().map(|r| (r.coefficient(), r.n_frac_digits()))
            })),
            // other Deserializer entry points: owned scratch strings (escape sequence inside the
            // JSON string), a reader, a byte slice, a struct field and a sequence element
            ("serde_json from a string with an escape", catch(|| {
                // the first character of the canonical text written as \u00XX
                let first = want.chars().next()?;
                let j = format!("\"\\u{:04x}{}\"", first as u32, &want[first.len_utf8()..]);
                serde_json::from_str::<Decimal>(&j).ok().map(|r| (r.coefficient(), r.n_frac_digits()))
            })),
            ("serde_json from_reader / from_slice", catch(|| {
                let j = serde_json::to_vec(&d).ok()?;
                let a = serde_json::from_reader::<_, Decimal>(&j[..]).ok().map(|r| (r.coefficient(), r.n_frac_digits()))?;
                let b = serde_json::from_slice::<Decimal>(&j).ok().map(|r| (r.coefficient(), r.n_frac_digits()))?;
                if a == b { Some(a) } else { None }
            })),
            // a serde format that is NOT self-describing (no type tags on the wire, deserialize_any
            // is an error - the way bincode / postcard work): the Decimal must travel as its string
            ("non-self-describing serde format", catch(|| {
                let mut all: Vec<(i128, u8)> = Vec::new();
                for human in [false, true] {
                    let wire = crate::nsd::to_bytes(&d, human).ok()?;
                    let mut expect = (want.len() as u32).to_le_bytes().to_vec();
                    expect.extend_from_slice(want.as_bytes());
                    if wire != expect {
                        return None;
                    }
                    for owned in [false, true] {
                        let r: Decimal = crate::nsd::from_bytes(&wire, owned, human).ok()?;
                        all.push((r.coefficient(), r.n_frac_digits()));
                    }
                }
                if all.iter().all(|v| *v == all[0]) { Some(all[0]) } else { None }
            })),
            ("serde_json inside a struct and a Vec", catch(|| {
                #[derive(serde::Serialize, serde::Deserialize)]
                struct Holder {
                    amount: Decimal,
                    items: Vec<Decimal>,
                    maybe: Option<Decimal>,
                }
                let j = serde_json::to_string(&Holder { amount: d, items: vec![d, d], maybe: Some(d) }).ok()?;
                let h: Holder = serde_json::from_str(&j).ok()?;
                let rep = |r: Decimal| (r.coefficient(), r.n_frac_digits());
                let all = [rep(h.amount), rep(h.items[0]), rep(h.items[1]), rep(h.maybe?)];
                if all.iter().all(|v| *v == all[0]) { Some(all[0]) } else { None }
            })),
        ];
        for (name, r) in back {
            ctx.sub();
            ctx.note(|| format!("{name}: expected ({}, {}), observed {r:?}", x.c, x.s));
            match r {
                Ok(Some((c, s))) if c == x.c && s == x.s => {}
                Ok(o) => ctx.fail("C07/round-trip", format!("{x} {name} = {o:?}; expected ({}, {})", x.c, x.s)),
                Err(p) => ctx.fail("C07/panics", format!("{x} {name} panicked: {p}")),
            }
        }
    }
}
