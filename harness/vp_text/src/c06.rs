//! C06 - parsing accepts exactly the literal grammar and never yields a wrong value.

use vcore::common::*;
use vcore::guard;
use engine::{catch, Ctx, Prop, Tier};
use fpdec::{Decimal, ParseDecimalError};
use oracle::text::{ref_parse, split_literal, RefParse};
use oracle::Big;
use proptest::prelude::*;
use serde::{Deserialize, Serialize};
use std::str::FromStr;

#[derive(Clone, Debug, Hash, PartialEq, Eq, Serialize, Deserialize)]
pub struct Case {
    /// the input; when `hex` is set, `s` is the hex encoding of the bytes
    /// (written by the SIGSEGV handler, which cannot JSON-escape)
    pub s: String,
    #[serde(default)]
    pub hex: bool,
}

impl Case {
    pub fn of(s: String) -> Case {
        Case { s, hex: false }
    }
    pub fn text(&self) -> String {
        if !self.hex {
            return self.s.clone();
        }
        let b: Vec<u8> = (0..self.s.len() / 2).filter_map(|i| u8::from_str_radix(&self.s[2 * i..2 * i + 2], 16).ok()).collect();
        String::from_utf8_lossy(&b).into_owned()
    }
}

pub struct C06;

// ---------------------------------------------------------------------------
// generators

fn digits(n: std::ops::RangeInclusive<usize>) -> BoxedStrategy<String> {
    proptest::collection::vec(0u8..10, n).prop_map(|v| v.into_iter().map(|d| (b'0' + d) as char).collect()).boxed()
}

fn sign() -> BoxedStrategy<&'static str> {
    prop_oneof![3 => Just(""), 2 => Just("-"), 1 => Just("+")].boxed()
}

fn exp_part() -> BoxedStrategy<String> {
    prop_oneof![
        4 => Just(String::new()),
        4 => (prop_oneof![Just("e"), Just("E")], sign(), 0i32..=45).prop_map(|(e, s, v)| format!("{e}{s}{v}")),
        2 => (prop_oneof![Just("e"), Just("E")], sign(), digits(1..=3), 0usize..=6).prop_map(|(e, s, d, z)| format!("{e}{s}{}{d}", "0".repeat(z))),
        1 => (prop_oneof![Just("e"), Just("E")], sign(), digits(1..=30)).prop_map(|(e, s, d)| format!("{e}{s}{d}")),
        // exponents that wrap modulo 2^64 / 2^32 back to a small value
        1 => (prop_oneof![Just("e"), Just("E")], sign(), 1u64..=3, 0u64..=40, any::<bool>()).prop_map(|(e, s, k, small, w32)| {
            let v = if w32 { Big::pow2(32) } else { Big::pow2(64) }.mul(&Big::from_u64(k)).add(&Big::from_u64(small));
            format!("{e}{s}{}", v.abs_digits())
        }),
    ]
    .boxed()
}

/// grammar-derived literal with free digit strings
fn grammar_lit() -> BoxedStrategy<String> {
    (sign(), 0usize..=4, prop_oneof![3 => digits(0..=20), 2 => digits(20..=45), 1 => digits(45..=80)], any::<bool>(), prop_oneof![3 => digits(0..=19), 1 => digits(19..=45)], exp_part())
        .prop_map(|(s, lz, int, point, frac, exp)| {
            let mut int = format!("{}{}", "0".repeat(lz), int);
            let frac = if point { frac } else { String::new() };
            if int.is_empty() && frac.is_empty() {
                int.push('7');
            }
            format!("{s}{int}{}{frac}{exp}", if point { "." } else { "" })
        })
        .boxed()
}

/// digit strings constructed around 10^38, 2^127, 2^128 and multiples
fn boundary_digits() -> BoxedStrategy<String> {
    (0u8..8, -12i128..=12, 0u32..=3, any::<u64>())
        .prop_map(|(kind, d, k, noise)| {
            let two127 = Big::pow2(127);
            let two128 = Big::pow2(128);
            let base = match kind {
                0 => Big::pow10(38),
                1 => two127,
                2 => two128,
                // k*2^128 + [10^38, 2^127): 39-digit values that wrap back into range (k = 1, 2)
                3 => two128.mul(&Big::from_u64(1 + (k as u64 % 2))).add(&Big::pow10(38)).add(&Big::from_u64(noise)),
                4 => two128.mul(&Big::from_u64(1 + (k as u64 % 2))).add(&two127).sub(&Big::from_u64(1 + noise % 1000)),
                5 => Big::pow2(256).add(&Big::from_u64(noise)),
                6 => two128.mul(&Big::from_u64(k as u64 + 1)),
                _ => Big::pow10(39 + k),
            };
            let v = base.add(&Big::from_i128(d));
            v.abs_digits()
        })
        .boxed()
}

/// boundary digits, optionally with a radix point inside and a compensating / non-compensating exponent
fn boundary_lit() -> BoxedStrategy<String> {
    (sign(), boundary_digits(), 0usize..=45, 0u8..4, -3i32..=3, 0usize..=3)
        .prop_map(|(s, d, cut, style, de, lz)| {
            let z = "0".repeat(lz);
            match style {
                0 => format!("{s}{z}{d}"),
                1 => {
                    // point inside, exponent moves it back (+ de)
                    let cut = cut.min(d.len());
                    let (a, b) = d.split_at(d.len() - cut);
                    format!("{s}{z}{a}.{b}e{}", cut as i32 + de)
                }
                2 => {
                    let cut = cut.min(18).min(d.len());
                    let (a, b) = d.split_at(d.len() - cut);
                    format!("{s}{z}{a}.{b}")
                }
                _ => {
                    // leading fractional zeros: .000ddd e+n
                    let n = cut + d.len();
                    format!("{s}.{}{d}e{}", "0".repeat(cut), n as i32 + de)
                }
            }
        })
        .boxed()
}

/// digit strings at machine-word boundaries (2^k + d for the word sizes a chunked accumulator
/// may use), extended by free digits, with the radix point at ANY position: a reader that
/// accumulates 8-digit chunks in 32/64-bit words overflows exactly when a digit prefix sits
/// at such a boundary, and the chunk layout depends on where the point is
fn word_lit() -> BoxedStrategy<String> {
    (
        sign(),
        prop_oneof![Just(8u32), Just(16), Just(31), Just(32), Just(53), Just(63), Just(64), Just(96), Just(127), Just(128)],
        prop_oneof![3 => -3i128..=3, 2 => 0i128..1_000_000_000, 1 => -1_000_000_000i128..0],
        digits(0..=12),
        0usize..=44,
        0usize..=9,
        0u8..4,
        -2i32..=2,
    )
        .prop_map(|(s, k, d, tail, cut, lz, style, de)| {
            let v = Big::pow2(k).add(&Big::from_i128(d));
            let mut ds = v.abs_digits();
            ds.push_str(&tail);
            let cut = cut.min(ds.len());
            let (a, b) = ds.split_at(ds.len() - cut);
            let z = "0".repeat(lz);
            match style {
                // plain: integer digits '.' fraction digits (valid iff cut <= 18 and the value fits)
                0 => format!("{s}{z}{a}.{b}"),
                // the exponent brings the scale back into 0..=18 (or just outside with de)
                1 => format!("{s}{z}{a}.{b}e{}", (cut as i32 - 18).max(0) + de),
                // fraction only, with leading fraction zeros, and an exponent
                2 => format!("{s}0.{z}{ds}e{}", (ds.len() + lz) as i32 - cut.min(18) as i32 + de),
                _ => format!("{s}{z}{a}{}{b}", if cut > 0 { "." } else { "" }),
            }
        })
        .boxed()
}

/// coefficient * 10^exp at the i128 edge, and scale limits 17/18/19
fn scaled_edge_lit() -> BoxedStrategy<String> {
    (sign(), 0u32..=38, -3i128..=3, 0usize..=20, -1i32..=1, any::<bool>())
        .prop_map(|(s, e, d, fl, de, frac_style)| {
            if frac_style {
                // fraction length - exponent in {17, 18, 19}
                let f = "1".repeat(fl.max(1));
                let target = 18 + de; // fraclen - exp
                let exp = fl.max(1) as i32 - target;
                format!("{s}3.{f}e{exp}")
            } else {
                let c = (MAXC / 10i128.pow(e)).saturating_add(d).max(0);
                format!("{s}{c}e{}", e as i32 + de.max(0))
            }
        })
        .boxed()
}

const EDIT_CHARS: &[&str] = &["0", "9", "5", "+", "-", ".", "e", "E", "_", "x", ",", " ", "\0", "\u{0663}", "\u{ff15}", "é", "\t", "\n", "/", ":"];

/// one or two edits of a valid literal
fn near_miss() -> BoxedStrategy<String> {
    (prop_oneof![grammar_lit(), boundary_lit(), scaled_edge_lit()], proptest::collection::vec((0u8..3, any::<u16>(), 0usize..EDIT_CHARS.len()), 1..=2))
        .prop_map(|(lit, edits)| {
            let mut cs: Vec<String> = lit.chars().map(|c| c.to_string()).collect();
            for (kind, pos, ch) in edits {
                let len = cs.len();
                match kind {
                    0 => {
                        let p = engine::pick(pos, len + 1);
                        cs.insert(p, EDIT_CHARS[ch].to_string());
                    }
                    1 if len > 0 => {
                        let p = engine::pick(pos, len);
                        cs.remove(p);
                    }
                    _ if len > 0 => {
                        let p = engine::pick(pos, len);
                        cs[p] = EDIT_CHARS[ch].to_string();
                    }
                    _ => {}
                }
            }
            cs.concat()
        })
        .boxed()
}

/// long inputs: thousands of leading zeros / fraction digits / exponent digits
fn long_lit() -> BoxedStrategy<String> {
    (sign(), 0usize..=3000, digits(0..=45), 0usize..=3000, digits(0..=30), 0usize..=600, -40i32..=40, 0u8..5)
        .prop_map(|(s, lz, d, fz, f, ez, e, kind)| match kind {
            // many leading zeros before a (possibly valid) number
            0 => format!("{s}{}{d}", "0".repeat(lz.max(1))),
            // many zeros after the point, then digits, with an exponent that may or may not compensate
            1 => format!("{s}{}.{}{f}e{}", if d.is_empty() { "0" } else { &d }, "0".repeat(fz), fz as i32 + e),
            // long run of trailing fraction zeros (more than 18 fractional digits: must be rejected)
            2 => format!("{s}{}.{f}{}", if d.is_empty() { "0" } else { &d }, "0".repeat(fz)),
            // exponent with many leading zeros
            3 => format!("{s}{}e{}{}", if d.is_empty() { "1" } else { &d }, "0".repeat(ez), e.abs()),
            // very long digit string
            _ => format!("{s}{}{}", "9".repeat(lz.max(40)), d),
        })
        .boxed()
}

fn fixed_forms() -> BoxedStrategy<String> {
    proptest::sample::select(vec![
        "", "+", "-", ".", "e", "E", "e5", ".e5", "+.", "-.e1", "1e", "1e+", "1e-", "1E+", "1.e", "1.e+", "1..2", "1.2.3", "--1", "+-1", "1e1e1", "1e1.5",
        "0", "00", "0.", ".0", "0.0", "0e5", "0E0", "+0e-3", "0e99", "0.0e40", "0e-19", "0.000e-20", "1e007", "2.E+014", "1e38", "1e39", "10e37", "0.1e39",
        ".0000000000000000000000000000000000000001e22", "500000000000000000000000000000000000000", "440282366920938463463374607431768211456",
        "170141183460469231731687303715884105727", "170141183460469231731687303715884105728", "-170141183460469231731687303715884105728",
        "340282366920938463463374607431768211455", "340282366920938463463374607431768211456", "1 ", " 1", "1_000", "0x10", "1e٣", "１", "inf", "NaN", "1f32",
        "1e18446744073709551617", "1.5e-18446744073709551615", "1e4294967297", "1e-4294967295", "12345678", "123456789", "1234567", "12345678.12345678", "0.12345678901234567e-1", "0.123456789012345678e-1",
    ])
    .prop_map(|s| s.to_string())
    .boxed()
}

impl C06 {
    /// literal generator without the arbitrary-bytes classes (used by the oracle self-test)
    pub fn strategy_for_selftest(&self) -> BoxedStrategy<String> {
        prop_oneof![4 => grammar_lit(), 3 => boundary_lit(), 2 => scaled_edge_lit(), 3 => near_miss(), 1 => fixed_forms(), 1 => "[0-9+\\-.eE]{0,24}"].boxed()
    }
}

impl Prop for C06 {
    type Case = Case;
    fn id(&self) -> &'static str {
        "C06"
    }
    fn rule(&self) -> String {
        "Generated strings: (1) grammar-derived literals (sign, 0..=80 integer digits, 0..=45 fraction digits, exponents with sign, leading zeros, up to 30 exponent digits), digit strings constructed around 10^38, 2^127, 2^128, digit strings 2^k + d (k in 8,16,31,32,53,63,64,96,127,128) extended by free digits with the radix point at every position and leading integer / fraction zeros, k*2^128+[10^38,2^127) (39-digit values that wrap), 2^256, 40+ digits, with radix points and compensating exponents, coefficient*10^exp at the i128 edge, fraction-exponent in {17,18,19}; \
         (2) near misses: one or two insert/delete/replace edits of a valid literal with digits, signs, '.', 'e', '_', blanks, NUL, non-ASCII digits, multi-byte characters; (3) arbitrary Unicode strings and lossy-decoded random bytes, long inputs (up to ~6000 bytes: thousands of leading zeros, fraction zeros, exponent zeros, digits); (4) a fixed list of corner literals. \
         from_str (as a path call, through str::parse, through the FromStr trait by name and from generic code), TryFrom<&str>, TryFrom<String> and fpdec_core::str_to_dec must agree with a character-level reference parser with big-integer accumulation (Ok iff in grammar, scale <= 18, |coefficient| <= 2^127-1; exact coefficient and scale; Empty iff empty). \
         Memory safety: every string is parsed twice more from a buffer that ends exactly at (resp. starts right after) a PROT_NONE guard page, so an out-of-bounds read faults; a SIGSEGV handler turns the fault into a replay file and a VIOLATION line. \
         Non-trivial: >= 20 significant digits, or an exponent, or a near miss, or within 12 of a 2^127 / 2^128 / 10^38 boundary. Distinct: hash of the string."
            .into()
    }
    fn assumptions(&self) -> Vec<String> {
        vec![
            "a zero literal with more than 18 fractional digits after applying the exponent (\"0.000e-20\") may be rejected or accepted as zero with <= 18 digits".into(),
            "error kinds are compared only for the empty string (Empty) as stated".into(),
            "out-of-bounds reads are detected at page granularity in this tier (guard pages); byte-exact detection is the ASan fuzz target of the thorough tier".into(),
        ]
    }
    fn cases(&self, tier: Tier) -> u64 {
        match tier {
            Tier::Quick => 1 << 20,
            Tier::Thorough => 1 << 25,
        }
    }
    fn strategy(&self, _tier: Tier) -> BoxedStrategy<Case> {
        prop_oneof![
            5 => grammar_lit(),
            4 => boundary_lit(),
            3 => word_lit(),
            2 => scaled_edge_lit(),
            5 => near_miss(),
            1 => any::<String>(),
            1 => "\\PC*",
            1 => proptest::collection::vec(any::<u8>(), 0..64).prop_map(|b| String::from_utf8_lossy(&b).into_owned()),
            1 => "[0-9+\\-.eE]{0,24}",
            1 => fixed_forms(),
            1 => long_lit(),
        ]
        .prop_map(Case::of)
        .boxed()
    }
    fn mandatory_labels(&self, _tier: Tier) -> Vec<&'static str> {
        vec!["ok", "err:not-in-grammar", "err:overflow", "err:frac-digits", "empty", "exponent", ">=20-digits", "near-2^127", "near-2^128", "near-10^38", "wraps-into-range", "zero-literal", "multi-byte", "exp>2digits", "leading-frac-zeros", "len>=256"]
    }
    fn builtin_corpus(&self) -> Vec<Case> {
        [
            "", "1e+", "1e-", "0e5", "0.", "0E0", "+0e-3", "1e007", "2.E+014", "0e99", "0.0e40",
            ".0000000000000000000000000000000000000001e22",
            "500000000000000000000000000000000000000",
            "440282366920938463463374607431768211456",
            "780564733841876926926749214863536422912",
            "170141183460469231731687303715884105727",
            "-170141183460469231731687303715884105727",
            "170141183460469231731687303715884105728",
            "17014118346046923173168730371588410572.7e1",
            "1.2345678901234567891",
            "12345678",
            "1234567",
        ]
        .iter()
        .map(|s| Case::of(s.to_string()))
        .collect()
    }

    fn check(&self, case: &Case, ctx: &mut Ctx) {
        let _ambient = ambient_mode(case, ctx);
        let s = case.text();
        let s = s.as_str();
        let exp = ref_parse(s);
        // ---- classification
        if s.is_empty() {
            ctx.label("empty");
        }
        if !s.is_ascii() {
            ctx.label("multi-byte");
        }
        if s.len() >= 256 {
            ctx.label("len>=256");
        }
        if let Some(p) = split_literal(s) {
            let all = format!("{}{}", p.int_digits, p.frac_digits);
            let sig = all.trim_start_matches('0');
            if sig.is_empty() {
                ctx.label("zero-literal");
            }
            if p.exp_digits.is_some() {
                ctx.label("exponent");
                ctx.nontrivial();
            }
            if p.exp_digits.map(|e| e.len() > 2).unwrap_or(false) {
                ctx.label("exp>2digits");
            }
            if p.int_digits.trim_start_matches('0').is_empty() && p.frac_digits.starts_with('0') && !sig.is_empty() {
                ctx.label("leading-frac-zeros");
            }
            if sig.len() >= 20 {
                ctx.label(">=20-digits");
                ctx.nontrivial();
            }
            if (38..=40).contains(&sig.len()) {
                if let Some(v) = Big::parse_dec(sig) {
                    let near = |b: &Big| v.sub(b).abs() <= Big::from_u64(12);
                    if near(&Big::pow2(127)) {
                        ctx.label("near-2^127");
                        ctx.nontrivial();
                    }
                    if near(&Big::pow2(128)) {
                        ctx.label("near-2^128");
                        ctx.nontrivial();
                    }
                    if near(&Big::pow10(38)) {
                        ctx.label("near-10^38");
                        ctx.nontrivial();
                    }
                    // wraps modulo 2^128 into [10^38, 2^127)
                    let (_, w) = v.divrem_trunc(&Big::pow2(128));
                    if v >= Big::pow2(128) && w >= Big::pow10(38) && w < Big::pow2(127) {
                        ctx.label("wraps-into-range");
                        ctx.nontrivial();
                    }
                }
            }
        } else if !s.is_empty() {
            ctx.nontrivial(); // not in the grammar: near miss / arbitrary
        }
        match &exp {
            RefParse::Ok { .. } => ctx.label("ok"),
            RefParse::Err { why, .. } => ctx.label(match *why {
                "empty" => "err:empty",
                "not in grammar" => "err:not-in-grammar",
                "more than 18 fractional digits" => "err:frac-digits",
                _ => "err:overflow",
            }),
            RefParse::AmbiguousZero => ctx.label("ambiguous-zero"),
        }

        // ---- the three public entry points
        type R = Result<Result<Decimal, ParseDecimalError>, String>;
        let r1: R = catch(|| Decimal::from_str(s));
        let r2: R = catch(|| Decimal::try_from(s));
        let r3: R = catch(|| Decimal::try_from(s.to_string()));
        // the FromStr trait reached in the ways users reach it (a new inherent from_str would win
        // for the path call above, but not for these)
        let r6: R = catch(|| s.parse::<Decimal>());
        let r7: R = catch(|| <Decimal as FromStr>::from_str(s));
        fn generic_parse<T: FromStr>(s: &str) -> Result<T, T::Err> {
            s.parse::<T>()
        }
        let r8: R = catch(|| generic_parse::<Decimal>(s));
        // ---- guard-page placements (fault = out-of-bounds read)
        let r4: R = guard::with_guarded(s, |g| catch(|| Decimal::from_str(g)));
        let r5: R = guard::with_guarded_front(s, |g| catch(|| Decimal::from_str(g)));
        let core = catch(|| fpdec_core::str_to_dec(s));
        // ---- all 8 start alignments, with digits as neighbouring bytes: a word-wise reader that
        // depends on the alignment of its input, or that lets bytes outside the slice leak into
        // the value, must show up as a different outcome
        {
            let len = s.len();
            let mut buf = vec![b'7'; len + 24];
            let pad = (8 - (buf.as_ptr() as usize) % 8) % 8;
            let same = |a: &R, b: &R| match (a, b) {
                (Ok(Ok(x)), Ok(Ok(y))) => x.coefficient() == y.coefficient() && x.n_frac_digits() == y.n_frac_digits(),
                (Ok(Err(x)), Ok(Err(y))) => x == y,
                (Err(_), Err(_)) => true,
                _ => false,
            };
            for off in 0..8usize {
                let start = pad + off;
                buf[start..start + len].copy_from_slice(s.as_bytes());
                let r: R = match std::str::from_utf8(&buf[start..start + len]) {
                    Ok(g) => catch(|| Decimal::from_str(g)),
                    Err(_) => break,
                };
                ctx.sub();
                if !same(&r, &r1) {
                    let show = |r: &R| match r {
                        Ok(Ok(d)) => format!("Ok({} @{})", d.coefficient(), d.n_frac_digits()),
                        Ok(Err(e)) => format!("Err({e:?})"),
                        Err(p) => format!("Panic({p})"),
                    };
                    ctx.fail("C06/depends-on-placement", format!("from_str({s:?}) = {} but the same text at address = {off} mod 8 between digit bytes gives {}", show(&r1), show(&r)));
                    break;
                }
                for b in &mut buf[start..start + len] {
                    *b = b'7';
                }
            }
        }

        for (name, r) in [("from_str", &r1), ("try_from(&str)", &r2), ("try_from(String)", &r3), ("from_str@page-end", &r4), ("from_str@page-start", &r5), ("str::parse::<Decimal>", &r6), ("<Decimal as FromStr>::from_str", &r7), ("generic T: FromStr", &r8)] {
            ctx.sub();
            let shown = match r {
                Ok(Ok(d)) => format!("Ok({} @{})", d.coefficient(), d.n_frac_digits()),
                Ok(Err(e)) => format!("Err({e:?})"),
                Err(p) => format!("Panic({p})"),
            };
            ctx.note(|| format!("{name}({s:?}): expected {exp:?}, observed {shown}"));
            let fail = |ctx: &mut Ctx, sig: &str| ctx.fail(sig, format!("{name}({s:?}): expected {exp:?}, observed {shown}"));
            match (r, &exp) {
                (Err(_), _) => fail(ctx, "C06/parser-panics"),
                (Ok(Ok(d)), _) if d.n_frac_digits() > 18 => fail(ctx, "C06/more-than-18-digits"),
                (Ok(Ok(d)), RefParse::Ok { coeff, scale }) => {
                    if d.coefficient() != *coeff || d.n_frac_digits() != *scale {
                        fail(ctx, "C06/wrong-value")
                    }
                }
                (Ok(Err(_)), RefParse::Ok { .. }) => fail(ctx, "C06/valid-literal-rejected"),
                (Ok(Ok(_)), RefParse::Err { why, .. }) => fail(
                    ctx,
                    match *why {
                        "coefficient overflow" => "C06/overflow-accepted",
                        "more than 18 fractional digits" => "C06/too-many-frac-digits-accepted",
                        _ => "C06/invalid-literal-accepted",
                    },
                ),
                (Ok(Err(e)), RefParse::Err { empty, .. }) => {
                    if *empty != (*e == ParseDecimalError::Empty) {
                        fail(ctx, "C06/empty-kind")
                    }
                }
                (Ok(Ok(d)), RefParse::AmbiguousZero) => {
                    if d.coefficient() != 0 {
                        fail(ctx, "C06/wrong-value")
                    }
                }
                (Ok(Err(e)), RefParse::AmbiguousZero) => {
                    if *e == ParseDecimalError::Empty {
                        fail(ctx, "C06/empty-kind")
                    }
                }
            }
        }
        // ---- the shared core parser must be consistent with from_str
        ctx.sub();
        match (&core, &r1) {
            (Err(p), _) => ctx.fail("C06/parser-panics", format!("str_to_dec({s:?}) panicked: {p}")),
            (Ok(Err(_)), Ok(Ok(_))) => ctx.fail("C06/core-disagrees", format!("str_to_dec({s:?}) is Err but from_str is Ok")),
            (Ok(Ok((c, e))), Ok(Ok(d))) => {
                // c * 10^e == coefficient * 10^-scale
                let lhs = if *e >= 0 && *e <= 60 {
                    Some((Big::from_i128(*c).mul(&Big::pow10(*e as u32)), 0u32))
                } else if *e < 0 && *e >= -60 {
                    Some((Big::from_i128(*c), (-*e) as u32))
                } else {
                    None
                };
                if let Some((n, sc)) = lhs {
                    let l = n.mul(&Big::pow10(d.n_frac_digits() as u32));
                    let r = Big::from_i128(d.coefficient()).mul(&Big::pow10(sc));
                    if l != r {
                        ctx.fail("C06/core-disagrees", format!("str_to_dec({s:?}) = ({c}, {e}) but from_str = {} @{}", d.coefficient(), d.n_frac_digits()));
                    }
                }
            }
            _ => {}
        }
    }
}
