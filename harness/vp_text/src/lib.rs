//! vp_text: part of the fpdec property checks (split into several crates so that they build in parallel).

pub mod c06;
pub mod c07;
pub mod c11;
pub mod c18;
pub mod nsd;
pub mod selftest;

/// Run the check `id` if it lives in this crate (never returns then).
pub fn dispatch(id: &str, opts: &engine::Opts) {
    match id {
        "C06" => engine::run_prop(c06::C06, opts),
        "C07" => engine::run_prop(c07::C07, opts),
        "C11" => engine::run_prop(c11::C11, opts),
        "C18" => c18::run(opts),
        _ => {}
    }
}
