//! vcore: part of the fpdec property checks (split into several crates so that they build in parallel).

pub mod common;
pub mod arith;
pub mod guard;
pub mod fuzzsupport;
