//! Guard-page placement of parser inputs: the string is copied so that it
//! ends exactly at (or starts right after) a PROT_NONE page.  Any read
//! outside the string on that side faults; the SIGSEGV handler writes the
//! staged input as a replay file, prints the VIOLATION line and exits 1.

use std::cell::Cell;
use std::ffi::CString;
use std::sync::atomic::{AtomicBool, AtomicUsize, Ordering};

const PAGE: usize = 4096;
const DATA_PAGES: usize = 2;
const MAX_LEN: usize = PAGE * DATA_PAGES;

#[derive(Clone, Copy)]
struct Arena {
    data: *mut u8, // start of the data pages; guard pages before and after
}

thread_local! {
    static ARENA: Cell<Option<Arena>> = const { Cell::new(None) };
    // staged copy of the input for the signal handler
    static STAGED_PTR: Cell<*const u8> = const { Cell::new(std::ptr::null()) };
    static STAGED_LEN: Cell<usize> = const { Cell::new(0) };
    static STAGE_BUF: Cell<*mut u8> = const { Cell::new(std::ptr::null_mut()) };
    static REPLAY_PATH: Cell<*const libc::c_char> = const { Cell::new(std::ptr::null()) };
}

/// releases a thread's arena, staging buffer and replay path when the thread ends
struct Cleanup {
    base: *mut libc::c_void,
    total: usize,
    buf: *mut u8,
    path: *mut libc::c_char,
}

impl Drop for Cleanup {
    fn drop(&mut self) {
        unsafe {
            libc::munmap(self.base, self.total);
            drop(Box::from_raw(std::ptr::slice_from_raw_parts_mut(self.buf, MAX_LEN)));
            drop(CString::from_raw(self.path));
        }
    }
}

thread_local! {
    static CLEANUP: std::cell::RefCell<Option<Cleanup>> = const { std::cell::RefCell::new(None) };
}

static HANDLER_INSTALLED: AtomicBool = AtomicBool::new(false);
static THREAD_COUNTER: AtomicUsize = AtomicUsize::new(0);

unsafe fn write_all(fd: i32, b: &[u8]) {
    let mut off = 0;
    while off < b.len() {
        let n = libc::write(fd, b.as_ptr().add(off) as *const libc::c_void, b.len() - off);
        if n <= 0 {
            break;
        }
        off += n as usize;
    }
}

extern "C" fn on_fault(_sig: i32, _info: *mut libc::siginfo_t, _ctx: *mut libc::c_void) {
    unsafe {
        let ptr = STAGED_PTR.with(|c| c.get());
        let len = STAGED_LEN.with(|c| c.get());
        let path = REPLAY_PATH.with(|c| c.get());
        if ptr.is_null() || path.is_null() {
            write_all(1, b"INCONCLUSIVE: SIGSEGV outside a guarded parser call (harness problem)\n");
            libc::_exit(2);
        }
        let fd = libc::open(path, libc::O_WRONLY | libc::O_CREAT | libc::O_TRUNC, 0o644);
        if fd >= 0 {
            write_all(fd, b"{\"property\":\"C06\",\"case\":{\"s\":\"");
            const HEX: &[u8; 16] = b"0123456789abcdef";
            let mut i = 0;
            while i < len {
                let b = *ptr.add(i);
                let pair = [HEX[(b >> 4) as usize], HEX[(b & 15) as usize]];
                write_all(fd, &pair);
                i += 1;
            }
            write_all(fd, b"\",\"hex\":true},\"failures\":[[\"C06/out-of-bounds-read\",\"the parser read outside the string (guard page hit)\"]],\"origin\":\"SIGSEGV handler\"}\n");
            libc::close(fd);
        }
        write_all(1, b"FAIL [C06/out-of-bounds-read] the parser read outside the input string (guard page hit)\n");
        write_all(1, b"VIOLATION property=C06 replay=");
        let plen = libc::strlen(path);
        write_all(1, std::slice::from_raw_parts(path as *const u8, plen));
        write_all(1, b"\n");
        libc::_exit(1);
    }
}

fn install_handler() {
    if HANDLER_INSTALLED.swap(true, Ordering::SeqCst) {
        return;
    }
    unsafe {
        let mut sa: libc::sigaction = std::mem::zeroed();
        sa.sa_sigaction = on_fault as usize;
        sa.sa_flags = libc::SA_SIGINFO | libc::SA_ONSTACK;
        libc::sigemptyset(&mut sa.sa_mask);
        libc::sigaction(libc::SIGSEGV, &sa, std::ptr::null_mut());
        libc::sigaction(libc::SIGBUS, &sa, std::ptr::null_mut());
    }
}

fn arena() -> Arena {
    if let Some(a) = ARENA.with(|c| c.get()) {
        return a;
    }
    install_handler();
    unsafe {
        let total = PAGE * (DATA_PAGES + 2);
        let base = libc::mmap(std::ptr::null_mut(), total, libc::PROT_NONE, libc::MAP_PRIVATE | libc::MAP_ANONYMOUS, -1, 0);
        assert!(base != libc::MAP_FAILED, "mmap failed");
        let data = (base as *mut u8).add(PAGE);
        let rc = libc::mprotect(data as *mut libc::c_void, PAGE * DATA_PAGES, libc::PROT_READ | libc::PROT_WRITE);
        assert!(rc == 0, "mprotect failed");
        let a = Arena { data };
        ARENA.with(|c| c.set(Some(a)));
        // staging buffer and replay path for the handler (owned by the thread's Cleanup)
        let buf: &'static mut [u8] = Box::leak(vec![0u8; MAX_LEN].into_boxed_slice());
        let buf_ptr = buf.as_mut_ptr();
        STAGE_BUF.with(|c| c.set(buf_ptr));
        let root = std::env::var("VERIF_ROOT").unwrap_or_else(|_| "/verif".into());
        let dir = format!("{root}/replays/C06");
        let _ = std::fs::create_dir_all(&dir);
        let n = THREAD_COUNTER.fetch_add(1, Ordering::SeqCst);
        let p = CString::new(format!("{dir}/segv-{}-{n}.json", std::process::id())).unwrap();
        let path_ptr = p.into_raw();
        REPLAY_PATH.with(|c| c.set(path_ptr as *const libc::c_char));
        CLEANUP.with(|c| *c.borrow_mut() = Some(Cleanup { base, total, buf: buf_ptr, path: path_ptr }));
        a
    }
}

fn stage(s: &str) {
    let buf = STAGE_BUF.with(|c| c.get());
    unsafe {
        std::ptr::copy_nonoverlapping(s.as_ptr(), buf, s.len());
    }
    STAGED_LEN.with(|c| c.set(s.len()));
    STAGED_PTR.with(|c| c.set(buf as *const u8));
}

fn unstage() {
    STAGED_PTR.with(|c| c.set(std::ptr::null()));
}

/// Run `f` on a copy of `s` that ends exactly at a guard page.
pub fn with_guarded<R>(s: &str, f: impl FnOnce(&str) -> R) -> R {
    if s.len() > MAX_LEN {
        return f(s);
    }
    let a = arena();
    unsafe {
        let end = a.data.add(PAGE * DATA_PAGES);
        let p = end.sub(s.len());
        std::ptr::copy_nonoverlapping(s.as_ptr(), p, s.len());
        let g = std::str::from_utf8_unchecked(std::slice::from_raw_parts(p, s.len()));
        stage(s);
        let r = f(g);
        unstage();
        r
    }
}

/// Run `f` on a copy of `s` that starts right after a guard page.
pub fn with_guarded_front<R>(s: &str, f: impl FnOnce(&str) -> R) -> R {
    if s.len() > MAX_LEN {
        return f(s);
    }
    let a = arena();
    unsafe {
        let p = a.data;
        std::ptr::copy_nonoverlapping(s.as_ptr(), p, s.len());
        let g = std::str::from_utf8_unchecked(std::slice::from_raw_parts(p, s.len()));
        stage(s);
        let r = f(g);
        unstage();
        r
    }
}
