//! Glue for the libFuzzer targets: run a property check on one decoded case
//! and abort (= fuzzer crash) on a failure that is not an open known finding.

use crate::common::{D, I, MAXC};
use engine::{Ctx, KnownFindings, Prop};
use std::sync::OnceLock;

static KNOWN: OnceLock<KnownFindings> = OnceLock::new();
static HOOK: OnceLock<()> = OnceLock::new();

/// Run the body of a fuzz target; a panic of the harness itself (decoder, oracle) is
/// reported as such (it is not a verdict about the code under test).
pub fn guarded(f: impl FnOnce()) {
    HOOK.get_or_init(|| {
        engine::install_silent_panic_hook();
    });
    if let Err(m) = engine::catch(f) {
        eprintln!("FUZZ-HARNESS-PANIC (not a violation): {m}");
        std::process::abort();
    }
}

pub fn eval<P: Prop>(prop: &P, case: &P::Case) {
    HOOK.get_or_init(|| {
        // panics inside the library under test are observed with catch_unwind by the
        // checks; keep libFuzzer's abort-on-panic hook from firing for those
        engine::install_silent_panic_hook();
    });
    let known = KNOWN.get_or_init(|| {
        let root = std::env::var("VERIF_ROOT").unwrap_or_else(|_| "/verif".into());
        KnownFindings::load(std::path::Path::new(&root))
    });
    let mut ctx = Ctx::default();
    prop.check(case, &mut ctx);
    for f in &ctx.failures {
        if known.open_match(prop.id(), &f.sig).is_none() {
            eprintln!("FUZZ-VIOLATION property={} [{}] {}", prop.id(), f.sig, f.detail);
            eprintln!("FUZZ-CASE {}", serde_json::to_string(case).unwrap_or_default());
            std::process::abort();
        }
    }
}

/// little decoder: consumes bytes front to back, zero-extends when exhausted
pub struct Bytes<'a> {
    data: &'a [u8],
    pos: usize,
}

impl<'a> Bytes<'a> {
    pub fn new(data: &'a [u8]) -> Self {
        Bytes { data, pos: 0 }
    }
    pub fn u8(&mut self) -> u8 {
        let b = self.data.get(self.pos).copied().unwrap_or(0);
        self.pos += 1;
        b
    }
    pub fn u64(&mut self) -> u64 {
        let mut v = 0u64;
        for i in 0..8 {
            v |= (self.u8() as u64) << (8 * i);
        }
        v
    }
    pub fn i128(&mut self) -> i128 {
        let lo = self.u64() as u128;
        let hi = self.u64() as u128;
        ((hi << 64) | lo) as i128
    }
    /// coefficient in the documented range, with a shape selector so that small and
    /// boundary values are as reachable as full-width ones
    pub fn coeff(&mut self) -> i128 {
        let sel = self.u8();
        let raw = self.i128();
        let v = match sel % 6 {
            0 => raw,
            1 => raw >> 64,
            2 => raw >> 100,
            3 => MAXC - (raw & 0xff).abs(),
            4 => 10i128.pow((raw as u32) % 39) + ((raw >> 40) & 7) - 3,
            _ => (MAXC / 10i128.pow((raw as u32) % 39)).saturating_add(((raw >> 40) & 7) - 3),
        };
        let v = if sel & 0x80 != 0 { v.wrapping_neg() } else { v };
        if v == i128::MIN {
            -MAXC
        } else {
            v
        }
    }
    pub fn d(&mut self) -> D {
        let s = self.u8() % 19;
        D::new(self.coeff(), s)
    }
    pub fn int(&mut self) -> I {
        let ty = self.u8() % 9;
        let (lo, hi) = crate::common::int_range(ty);
        I { ty, v: self.coeff().clamp(lo, hi) }
    }
    pub fn rest_utf8_lossy(&mut self) -> String {
        let r = self.data.get(self.pos..).unwrap_or(&[]);
        self.pos = self.data.len();
        String::from_utf8_lossy(r).into_owned()
    }
}
