//! Shared generators, operand types and outcome handling.

use engine::{catch, s128};
use fpdec::{Decimal, RoundingMode};
use oracle::{Big, Mode};
use proptest::prelude::*;
use serde::{Deserialize, Serialize};

pub const MAXC: i128 = i128::MAX;

/// A Decimal representation: coefficient and scale, exactly as stored.
#[derive(Clone, Copy, Debug, Hash, PartialEq, Eq, Serialize, Deserialize)]
pub struct D {
    #[serde(with = "s128")]
    pub c: i128,
    pub s: u8,
}

impl D {
    pub fn new(c: i128, s: u8) -> D {
        D { c, s }
    }
    pub fn dec(&self) -> Decimal {
        Decimal::new_raw(self.c, self.s)
    }
    pub fn big(&self) -> Big {
        Big::from_i128(self.c)
    }
    pub fn of(d: Decimal) -> D {
        D { c: d.coefficient(), s: d.n_frac_digits() }
    }
}

impl std::fmt::Display for D {
    fn fmt(&self, f: &mut std::fmt::Formatter<'_>) -> std::fmt::Result {
        write!(f, "({} @{})", self.c, self.s)
    }
}

/// A primitive integer operand: type index and value (always inside the type).
/// 0:u8 1:i8 2:u16 3:i16 4:u32 5:i32 6:u64 7:i64 8:i128
#[derive(Clone, Copy, Debug, Hash, PartialEq, Eq, Serialize, Deserialize)]
pub struct I {
    pub ty: u8,
    #[serde(with = "s128")]
    pub v: i128,
}

pub const INT_NAMES: [&str; 9] = ["u8", "i8", "u16", "i16", "u32", "i32", "u64", "i64", "i128"];

pub fn int_range(ty: u8) -> (i128, i128) {
    match ty {
        0 => (u8::MIN as i128, u8::MAX as i128),
        1 => (i8::MIN as i128, i8::MAX as i128),
        2 => (u16::MIN as i128, u16::MAX as i128),
        3 => (i16::MIN as i128, i16::MAX as i128),
        4 => (u32::MIN as i128, u32::MAX as i128),
        5 => (i32::MIN as i128, i32::MAX as i128),
        6 => (u64::MIN as i128, u64::MAX as i128),
        7 => (i64::MIN as i128, i64::MAX as i128),
        // i128 operands are restricted to the documented Decimal range
        // (arb_int_full() adds i128::MIN for the properties whose checks accept it)
        _ => (-MAXC, MAXC),
    }
}

/// Stamp `$body` once per integer type with `$i` bound to the value in that
/// concrete type, so that trait dispatch selects exactly the impl for it.
#[macro_export]
macro_rules! with_int {
    ($int:expr, $i:ident => $body:expr) => {{
        let __v: i128 = $int.v;
        match $int.ty {
            0 => {
                let $i = __v as u8;
                $body
            }
            1 => {
                let $i = __v as i8;
                $body
            }
            2 => {
                let $i = __v as u16;
                $body
            }
            3 => {
                let $i = __v as i16;
                $body
            }
            4 => {
                let $i = __v as u32;
                $body
            }
            5 => {
                let $i = __v as i32;
                $body
            }
            6 => {
                let $i = __v as u64;
                $body
            }
            7 => {
                let $i = __v as i64;
                $body
            }
            _ => {
                let $i = __v as i128;
                $body
            }
        }
    }};
}

pub fn mode_to_fpdec(m: Mode) -> RoundingMode {
    match m {
        Mode::R05Up => RoundingMode::Round05Up,
        Mode::Ceiling => RoundingMode::RoundCeiling,
        Mode::Down => RoundingMode::RoundDown,
        Mode::Floor => RoundingMode::RoundFloor,
        Mode::HalfDown => RoundingMode::RoundHalfDown,
        Mode::HalfEven => RoundingMode::RoundHalfEven,
        Mode::HalfUp => RoundingMode::RoundHalfUp,
        Mode::Up => RoundingMode::RoundUp,
    }
}

pub fn mode_label(m: Mode) -> &'static str {
    match m {
        Mode::R05Up => "mode=Round05Up",
        Mode::Ceiling => "mode=Ceiling",
        Mode::Down => "mode=Down",
        Mode::Floor => "mode=Floor",
        Mode::HalfDown => "mode=HalfDown",
        Mode::HalfEven => "mode=HalfEven",
        Mode::HalfUp => "mode=HalfUp",
        Mode::Up => "mode=Up",
    }
}

/// For properties whose statement does not depend on the rounding mode: set the
/// thread's default mode to a value derived from the case itself (so replay is
/// deterministic).  A mode-independent operation that starts to consult the
/// thread default is then exposed.
pub fn ambient_mode<C: std::hash::Hash>(case: &C, ctx: &mut engine::Ctx) -> Mode {
    if engine::pristine() {
        // this process never touches the rounding mode: the initial RoundHalfEven is in force
        ctx.label("pristine-process");
        return Mode::HalfEven;
    }
    let m = Mode::from_index((engine::case_hash(case) >> 17) as u8 % 8);
    RoundingMode::set_default(mode_to_fpdec(m));
    if m != Mode::HalfEven {
        ctx.label("ambient-mode!=HalfEven");
    }
    ctx.note(|| format!("ambient thread-default rounding mode: {}", m.name()));
    m
}

pub fn set_mode(m: u8) -> Mode {
    if engine::pristine() {
        // this process never touches the rounding mode: the case is judged under the initial
        // RoundHalfEven whatever mode it asks for
        return Mode::HalfEven;
    }
    let m = Mode::from_index(m);
    RoundingMode::set_default(mode_to_fpdec(m));
    m
}

// ---------------------------------------------------------------------------
// outcomes

#[derive(Clone, Debug, PartialEq, Eq)]
pub enum Out {
    Val(i128, u8),
    None,
    Panic(String),
}

impl std::fmt::Display for Out {
    fn fmt(&self, f: &mut std::fmt::Formatter<'_>) -> std::fmt::Result {
        match self {
            Out::Val(c, s) => write!(f, "Value({c} @{s})"),
            Out::None => write!(f, "None"),
            Out::Panic(m) => write!(f, "Panic({m})"),
        }
    }
}

impl Out {
    /// same outcome class and value (panic messages are not compared)
    pub fn same(&self, o: &Out) -> bool {
        match (self, o) {
            (Out::Val(a, b), Out::Val(c, d)) => a == c && b == d,
            (Out::None, Out::None) => true,
            (Out::Panic(_), Out::Panic(_)) => true,
            _ => false,
        }
    }
}

/// run a panicking operator
pub fn op(f: impl FnOnce() -> Decimal) -> Out {
    match catch(f) {
        Ok(d) => Out::Val(d.coefficient(), d.n_frac_digits()),
        Err(m) => Out::Panic(m),
    }
}

/// run a checked operation
pub fn opt(f: impl FnOnce() -> Option<Decimal>) -> Out {
    match catch(f) {
        Ok(Some(d)) => Out::Val(d.coefficient(), d.n_frac_digits()),
        Ok(None) => Out::None,
        Err(m) => Out::Panic(m),
    }
}

/// What the oracle allows.
#[derive(Clone, Debug)]
pub enum Exp {
    /// exactly this representation
    Exact(i128, u8),
    /// value num / 10^scale in any representation with scale in lo..=hi
    Value { num: Big, scale: u32, lo: u8, hi: u8 },
    /// overflow / error signal: panic for operators, None for checked
    Signal,
    /// the representation, or a signal (results/operands hitting -2^127)
    Either(i128, u8),
    /// value in any representation lo..=hi, or a signal
    EitherValue { num: Big, scale: u32, lo: u8, hi: u8 },
}

impl std::fmt::Display for Exp {
    fn fmt(&self, f: &mut std::fmt::Formatter<'_>) -> std::fmt::Result {
        match self {
            Exp::Exact(c, s) => write!(f, "Value({c} @{s})"),
            Exp::Value { num, scale, lo, hi } => {
                write!(f, "value {num}e-{scale} with {lo}..={hi} fractional digits")
            }
            Exp::Signal => write!(f, "overflow/error signal"),
            Exp::Either(c, s) => write!(f, "Value({c} @{s}) or signal"),
            Exp::EitherValue { num, scale, .. } => write!(f, "value {num}e-{scale} or signal"),
        }
    }
}

fn value_matches(c: i128, s: u8, num: &Big, scale: u32, lo: u8, hi: u8) -> bool {
    if s < lo || s > hi || s > 18 {
        return false;
    }
    // c / 10^s == num / 10^scale  <=>  c * 10^scale == num * 10^s
    Big::from_i128(c).mul(&Big::pow10(scale)) == num.mul(&Big::pow10(s as u32))
}

/// `checked`: the operation is a checked_* one (signal = None, panic never ok)
pub fn judge(out: &Out, exp: &Exp, checked: bool) -> Result<(), &'static str> {
    let signal_ok = |o: &Out| -> Result<(), &'static str> {
        match (o, checked) {
            (Out::Panic(_), false) => Ok(()),
            (Out::None, true) => Ok(()),
            (Out::Panic(_), true) => Err("checked-panics"),
            (Out::None, false) => Err("unexpected-none"),
            (Out::Val(..), _) => Err("value-instead-of-signal"),
        }
    };
    match exp {
        Exp::Exact(c, s) => match out {
            Out::Val(a, b) if a == c && b == s => Ok(()),
            Out::Val(a, b) if b != s && {
                value_matches(*a, *b, &Big::from_i128(*c), *s as u32, 0, 18)
            } =>
            {
                Err("wrong-scale")
            }
            Out::Val(..) => Err("wrong-value"),
            Out::None => Err("spurious-none"),
            Out::Panic(_) => {
                if checked {
                    Err("checked-panics")
                } else {
                    Err("spurious-panic")
                }
            }
        },
        Exp::Value { num, scale, lo, hi } => match out {
            Out::Val(a, b) => {
                if value_matches(*a, *b, num, *scale, *lo, *hi) {
                    Ok(())
                } else if value_matches(*a, *b, num, *scale, 0, 18) {
                    Err("wrong-scale")
                } else {
                    Err("wrong-value")
                }
            }
            Out::None => Err("spurious-none"),
            Out::Panic(_) => {
                if checked {
                    Err("checked-panics")
                } else {
                    Err("spurious-panic")
                }
            }
        },
        Exp::Signal => signal_ok(out),
        Exp::Either(c, s) => match out {
            Out::Val(a, b) => {
                if a == c && b == s {
                    Ok(())
                } else {
                    Err("wrong-value")
                }
            }
            o => signal_ok(o),
        },
        Exp::EitherValue { num, scale, lo, hi } => match out {
            Out::Val(a, b) => {
                if value_matches(*a, *b, num, *scale, *lo, *hi) {
                    Ok(())
                } else {
                    Err("wrong-value")
                }
            }
            o => signal_ok(o),
        },
    }
}

pub fn in_i128(b: &Big) -> bool {
    b.to_i128().is_some()
}

pub fn is_min(b: &Big) -> bool {
    b.to_i128() == Some(i128::MIN)
}

/// |b| within 2^8 of 2^127
pub fn near_edge(b: &Big) -> bool {
    let a = b.abs();
    let edge = Big::pow2(127);
    let d = a.sub(&edge).abs();
    d <= Big::from_u64(256)
}

// ---------------------------------------------------------------------------
// generators

fn ten_pow(k: u32) -> i128 {
    10i128.pow(k)
}

/// Non-negative coefficient magnitudes (<= MAXC), by class.
pub fn arb_magnitude() -> BoxedStrategy<i128> {
    prop_oneof![
        // small: shrink target, readable samples
        3 => (0i128..=1000),
        // uniform bit length, uniform below
        6 => (0u32..=127, any::<u128>()).prop_map(|(b, r)| {
            if b == 0 { 0 } else { ((r >> (128 - b)) | (1u128 << (b - 1))) as i128 & MAXC }
        }),
        // 10^k + delta: digit-count boundaries
        3 => (0u32..=38, -3i128..=3).prop_map(|(k, d)| (ten_pow(k) + d).clamp(0, MAXC)),
        // 2^k + delta: word boundaries of the wide division
        3 => (0u32..=126, -3i128..=3).prop_map(|(k, d)| ((1i128 << k) + d).clamp(0, MAXC)),
        // top of the range
        2 => (0i128..=3).prop_map(|d| MAXC - d),
        // exactly-fits vs. off-by-one when up-scaling by 10^k
        3 => (0u32..=38, -3i128..=3).prop_map(|(k, d)| (MAXC / ten_pow(k)).saturating_add(d).clamp(0, MAXC)),
        // trailing zeros: m * 10^k
        3 => (any::<u64>(), 0u32..=19, 0u32..=64).prop_map(|(m, k, sh)| {
            let m = (m >> sh.min(63)) as i128;
            m.checked_mul(ten_pow(k)).unwrap_or(m)
        }),
        // 2^a * 5^b * m
        2 => (0u32..=126, 0u32..=54, 1i128..=9).prop_map(|(a, b, m)| {
            let mut v: i128 = m;
            for _ in 0..b { match v.checked_mul(5) { Some(n) => v = n, None => break } }
            for _ in 0..a { match v.checked_mul(2) { Some(n) => v = n, None => break } }
            v
        }),
        1 => Just(0i128),
    ]
    .boxed()
}

pub fn arb_coeff() -> BoxedStrategy<i128> {
    (arb_magnitude(), any::<bool>()).prop_map(|(m, neg)| if neg { -m } else { m }).boxed()
}

pub fn arb_scale() -> BoxedStrategy<u8> {
    prop_oneof![1 => Just(0u8), 1 => Just(18u8), 6 => 0u8..=18].boxed()
}

pub fn arb_d() -> BoxedStrategy<D> {
    (arb_coeff(), arb_scale()).prop_map(|(c, s)| D { c, s }).boxed()
}

pub fn arb_mode() -> BoxedStrategy<u8> {
    (0u8..8).boxed()
}

/// integer operand of any of the 9 types
pub fn arb_int() -> BoxedStrategy<I> {
    (0u8..9, 0u8..10, any::<u128>(), 0u32..=127, -3i128..=3, any::<bool>())
        .prop_map(|(ty, cls, r, k, d, neg)| {
            let (lo, hi) = int_range(ty);
            let v: i128 = match cls {
                0 => lo,
                1 => lo + 1,
                2 => -1,
                3 => 0,
                4 => 1,
                5 => hi - 1,
                6 => hi,
                7 => {
                    let p = ten_pow(k % 39).saturating_add(d);
                    if neg { -p } else { p }
                }
                8 => {
                    let p = (1i128 << (k % 127)).saturating_add(d);
                    if neg { -p } else { p }
                }
                _ => {
                    let bits = k % 128;
                    let m = if bits == 0 { 0 } else { (r >> (128 - bits)) as i128 & MAXC };
                    if neg { -m } else { m }
                }
            };
            I { ty, v: v.clamp(lo, hi) }
        })
        .boxed()
}

/// like arb_int(), but the i128 type also yields i128::MIN (used by C01, C08, C17,
/// where the unchanged crate handles it; /, %, quantize with an i128::MIN integer
/// operand negate it internally and are outside the claimed domain)
pub fn arb_int_full() -> BoxedStrategy<I> {
    (arb_int(), 0u8..16).prop_map(|(i, k)| if i.ty == 8 && k == 0 { I { ty: 8, v: i128::MIN } } else { i }).boxed()
}

pub fn big_pow10(k: u32) -> Big {
    Big::pow10(k)
}

#[derive(Clone, Copy, Debug, Hash, PartialEq, Eq, Serialize, Deserialize)]
pub enum Rhs {
    Dec(D),
    /// integer on the right: x op i
    IntR(I),
    /// integer on the left: i op x
    IntL(I),
}


#[macro_export]
macro_rules! forms {
    // all operand forms of a binary trait method for operands a, b
    ($tr:ident :: $m:ident, $wrap:ident, $a:expr, $b:expr) => {{
        let a = $a;
        let b = $b;
        vec![
            ("a op b", $wrap(|| $tr::$m(a, b))),
            ("&a op b", $wrap(|| $tr::$m(&a, b))),
            ("a op &b", $wrap(|| $tr::$m(a, &b))),
            ("&a op &b", $wrap(|| $tr::$m(&a, &b))),
        ]
    }};
}

#[macro_export]
macro_rules! assign_forms {
    ($tr:ident :: $m:ident, $a:expr, $b:expr) => {{
        let a: Decimal = $a;
        let b = $b;
        vec![
            (
                "a op= b",
                $crate::common::op(|| {
                    let mut t = a;
                    $tr::$m(&mut t, b);
                    t
                }),
            ),
            (
                "a op= &b",
                $crate::common::op(|| {
                    let mut t = a;
                    $tr::$m(&mut t, &b);
                    t
                }),
            ),
        ]
    }};
}


/// A second operand related to `x`: the same value (same or another scale), its negation,
/// a neighbour, a small multiple or power-of-ten multiple - operand pairs that uniformly
/// random generation practically never produces.
pub fn related_d(x: D, kind: u8, k: u8, d: i128) -> D {
    match kind % 7 {
        0 => x,
        1 => D::new(-x.c, x.s),
        2 => {
            // same value, more fractional digits (if it fits)
            let k = k % (19 - x.s);
            match x.c.checked_mul(10i128.pow(k as u32)) {
                Some(c) if c != i128::MIN => D::new(c, x.s + k),
                _ => x,
            }
        }
        3 => {
            // same value, fewer digits while divisible
            let (mut c, mut s, mut k) = (x.c, x.s, k);
            while s > 0 && c % 10 == 0 && k > 0 {
                c /= 10;
                s -= 1;
                k -= 1;
            }
            D::new(c, s)
        }
        4 => D::new(x.c.saturating_add(d).clamp(-MAXC, MAXC), x.s),
        5 => {
            // small multiple
            let m = if d == 0 { 2 } else { d };
            D::new(x.c.checked_mul(m).filter(|v| *v != i128::MIN).unwrap_or(x.c), x.s)
        }
        _ => {
            // same digits, different scale (value differs by a power of ten)
            D::new(x.c, k % 19)
        }
    }
}

/// "Unit-like" operands: +-m * 10^z at scale s with m in {1, 2, 5, 25, 125, 3, 7} (mostly 1) - the
/// steps, quanta, divisors and factors people actually write (1, -1, 10, 0.1, 0.01, -0.010, 0.05, 0.25 ...)
pub fn arb_unit_d() -> BoxedStrategy<D> {
    (prop_oneof![6 => Just(1i128), 1 => Just(2i128), 1 => Just(5), 1 => Just(25), 1 => Just(125), 1 => Just(3), 1 => Just(7)], 0u32..=4, 0u8..=18, any::<bool>())
        .prop_map(|(m, z, s, neg)| {
            let c = m * 10i128.pow(z);
            D::new(if neg { -c } else { c }, s)
        })
        .boxed()
}

/// a unit-like operand paired with an arbitrary or a human-scale operand, in either order
pub fn arb_unit_pair() -> BoxedStrategy<(D, D)> {
    (arb_unit_d(), prop_oneof![2 => arb_d(), 3 => (-10_000_000i128..=10_000_000, 0u8..=9).prop_map(|(c, s)| D::new(c, s)), 1 => arb_unit_d()], any::<bool>())
        .prop_map(|(u, x, swap)| if swap { (u, x) } else { (x, u) })
        .boxed()
}

pub fn arb_related_pair() -> BoxedStrategy<(D, D)> {
    (arb_d(), 0u8..7, 0u8..=18, -3i128..=3, any::<bool>())
        .prop_map(|(x, kind, k, d, swap)| {
            let y = related_d(x, kind, k, d);
            if swap {
                (y, x)
            } else {
                (x, y)
            }
        })
        .boxed()
}

/// Coefficients at machine-word boundaries: +-2^k + d for k in {7,8,15,16,31,32,63,64,126}
/// and tiny values (0, +-1, +-2, ...).  Paired, they hit the classic overflow couples
/// (i64::MIN with -1, 2^32 * 2^32, ...) that fast paths on narrower types get wrong.
pub fn arb_word_coeff() -> BoxedStrategy<i128> {
    prop_oneof![
        3 => (proptest::sample::select(vec![7u32, 8, 15, 16, 31, 32, 63, 64, 126]), -2i128..=2, any::<bool>()).prop_map(|(k, d, neg)| {
            let v = (1i128 << k) + d;
            if neg { -v } else { v }
        }),
        2 => (-3i128..=3),
        1 => (proptest::sample::select(vec![i8::MIN as i128, i16::MIN as i128, i32::MIN as i128, i64::MIN as i128, i64::MAX as i128, u64::MAX as i128, u32::MAX as i128])),
    ]
    .boxed()
}

pub fn arb_word_pair() -> BoxedStrategy<(D, D)> {
    (arb_word_coeff(), arb_word_coeff(), arb_scale(), arb_scale(), 0u8..4)
        .prop_map(|(a, b, p, q, k)| {
            // k: make one operand an exact +-1 / +-10^s at its scale now and then
            let y = match k {
                0 => D::new(-(10i128.pow(q as u32)), q),
                1 => D::new(10i128.pow(q as u32), q),
                _ => D::new(b, q),
            };
            (D::new(a, p), y)
        })
        .boxed()
}

/// integer operand at a word boundary or tiny (-1, 0, 1, 2), of any type
pub fn arb_word_int() -> BoxedStrategy<I> {
    (0u8..9, arb_word_coeff()).prop_map(|(ty, v)| {
        let (lo, hi) = int_range(ty);
        I { ty, v: v.clamp(lo, hi) }
    }).boxed()
}

/// any i128 incl. i128::MIN, weighted to large magnitudes and limb patterns
pub fn arb_wide_i128() -> BoxedStrategy<i128> {
    prop_oneof![
        4 => arb_coeff(),
        3 => any::<i128>(),
        1 => Just(i128::MIN),
        1 => Just(i128::MIN + 1),
        // maximal leading limbs / all-ones patterns
        2 => (0u32..=126, any::<bool>()).prop_map(|(k, neg)| {
            let v = (u128::MAX >> (1 + k)) as i128;
            if neg { -v } else { v }
        }),
        2 => (any::<u64>(), any::<bool>()).prop_map(|(lo, neg)| {
            let v = ((0x7fff_ffff_ffff_ffffu128 << 64) | lo as u128) as i128;
            if neg { -v } else { v }
        }),
        2 => (any::<u64>(), any::<bool>()).prop_map(|(hi, neg)| {
            let v = ((((hi >> 1) as u128) << 64) | 0xffff_ffff_ffff_ffffu128) as i128;
            if neg { -v } else { v }
        }),
    ]
    .boxed()
}

/// divisors 1..=2^127-1 incl. the adversarial shapes for quotient-digit estimation
pub fn arb_divisor() -> BoxedStrategy<i128> {
    prop_oneof![
        3 => arb_magnitude().prop_map(|m| m.max(1)),
        2 => any::<u64>().prop_map(|m| (m as i128).max(1)),
        2 => (1i128..=MAXC),
        // normalised high limb 0x8000..0, low limb all ones (estimate too large)
        4 => (65u32..=127, 0u32..=20, any::<u64>()).prop_map(|(b, cut, noise)| {
            let hi = 1u128 << (b - 1);
            let lo_bits = b - 64;
            let lo = ((1u128 << lo_bits) - 1) & !(((1u128 << cut.min(lo_bits)) - 1) & noise as u128);
            ((hi | lo) as i128).clamp(1, MAXC)
        }),
        // high limb small, low limb max
        2 => (1u64..=16, any::<u64>()).prop_map(|(h, l)| {
            ((((h as u128) << 64) | (l | 0xffff_ffff_0000_0000) as u128) as i128).clamp(1, MAXC)
        }),
        // just above / below 2^64
        2 => (-4i128..=4).prop_map(|d| ((1i128 << 64) + d).max(1)),
        1 => Just(1i128),
        1 => Just(MAXC),
    ]
    .boxed()
}


/// Decimal operands for the wide (256-bit) paths: limb-pattern coefficients inside the
/// domain, divisors with the adversarial shapes for quotient-digit estimation
pub fn arb_wide_dec_pair() -> BoxedStrategy<(D, D)> {
    (arb_wide_i128(), arb_divisor(), arb_scale(), arb_scale(), any::<bool>(), any::<bool>())
        .prop_map(|(a, m, p, q, neg, swap)| {
            let a = a.clamp(-MAXC, MAXC);
            let m = if neg { -m } else { m };
            if swap {
                (D::new(m, p), D::new(a, q))
            } else {
                (D::new(a, p), D::new(m, q))
            }
        })
        .boxed()
}
