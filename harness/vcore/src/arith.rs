//! Exact expectations for *, /, mul_rounded, div_rounded, quantize, round, %
//! (shared by C02, C03, C04, C05, C10, C16, C17, C19, C20).

use crate::common::*;
use oracle::{round_exact_cls, Big, Frac, Mode};

/// A rational operand: coefficient and scale (integers have scale 0).
#[derive(Clone, Copy, Debug)]
pub struct Q {
    pub c: i128,
    pub s: u8,
}

impl From<D> for Q {
    fn from(d: D) -> Q {
        Q { c: d.c, s: d.s }
    }
}
impl From<I> for Q {
    fn from(i: I) -> Q {
        Q { c: i.v, s: 0 }
    }
}

impl Q {
    pub fn big(&self) -> Big {
        Big::from_i128(self.c)
    }
    pub fn is_zero(&self) -> bool {
        self.c == 0
    }
    pub fn is_one(&self) -> bool {
        self.c == 10i128.pow(self.s as u32)
    }
}

#[derive(Clone, Debug, Default)]
pub struct Info {
    /// the intermediate (product / scaled dividend) does not fit in i128
    pub wide: bool,
    /// something was discarded by rounding
    pub inexact: bool,
    /// the discarded part was exactly one half
    pub tie: bool,
    pub overflow: bool,
    pub edge: bool,
    /// result within 2^8 of +-2^127
    pub near: bool,
}

fn finish(r: &Big, scale: u8, info: &mut Info) -> Exp {
    info.near = near_edge(r);
    if !in_i128(r) {
        info.overflow = true;
        Exp::Signal
    } else if is_min(r) {
        info.edge = true;
        Exp::Either(i128::MIN, scale)
    } else {
        Exp::Exact(r.to_i128().unwrap(), scale)
    }
}

fn zero_ok(exp: Exp, r: &Big) -> Exp {
    // a zero result may carry any scale
    if r.is_zero() {
        Exp::Value { num: Big::ZERO, scale: 0, lo: 0, hi: 18 }
    } else {
        exp
    }
}

/// exact product rounded to `n` fractional digits (n >= p+q: exact, scale p+q)
pub fn product_rounded(x: Q, y: Q, n: u8, mode: Mode) -> (Big, u8, Info) {
    let mut info = Info::default();
    let p = x.big().mul(&y.big());
    info.wide = !in_i128(&p);
    let pq = x.s + y.s;
    if n >= pq {
        (p, pq, info)
    } else {
        let (r, f) = round_exact_cls(&p, &Big::pow10((pq - n) as u32), mode);
        info.inexact = f != Frac::Zero;
        info.tie = f == Frac::Half;
        (r, n, info)
    }
}

/// `x * y` for two Decimals (C02)
pub fn exp_mul(x: Q, y: Q, mode: Mode) -> (Exp, Info) {
    let (r, scale, mut info) = product_rounded(x, y, 18, mode);
    if x.is_zero() || y.is_zero() || x.is_one() || y.is_one() {
        // value only; always representable (it is the other operand or zero)
        let num = x.big().mul(&y.big());
        return (Exp::Value { num, scale: (x.s + y.s) as u32, lo: 0, hi: 18 }, info);
    }
    let e = finish(&r, scale, &mut info);
    // p + q > 18: the statement fixes the value ("rounded to 18 fractional digits"),
    // not the representation; a representation with fewer (never more) digits is accepted
    let e = match e {
        Exp::Exact(c, s) if x.s + y.s > 18 => Exp::Value { num: Big::from_i128(c), scale: s as u32, lo: 0, hi: 18 },
        o => o,
    };
    (e, info)
}

/// `x.checked_mul(y)` for two Decimals
pub fn exp_checked_mul(x: Q, y: Q) -> (Exp, Info) {
    let mut info = Info::default();
    let p = x.big().mul(&y.big());
    info.wide = !in_i128(&p);
    let pq = x.s + y.s;
    let special = x.is_zero() || y.is_zero() || x.is_one() || y.is_one();
    if pq <= 18 && p.fits_coeff() {
        if special {
            (Exp::Value { num: p, scale: pq as u32, lo: 0, hi: 18 }, info)
        } else {
            (Exp::Exact(p.to_i128().unwrap(), pq), info)
        }
    } else {
        info.overflow = true;
        // None, or (short-cuts) the exact product in some representation
        (Exp::EitherValue { num: p, scale: pq as u32, lo: 0, hi: 18 }, info)
    }
}

/// Decimal * integer (either side): exact with the Decimal's scale
pub fn exp_mul_int(d: Q, i: Q) -> (Exp, Info) {
    let mut info = Info::default();
    let p = d.big().mul(&i.big());
    info.wide = !in_i128(&p);
    let e = finish(&p, d.s, &mut info);
    (e, info)
}

/// exact quotient x / y rounded to n fractional digits; None for y == 0
pub fn quotient_rounded(x: Q, y: Q, n: u8, mode: Mode) -> Option<(Big, Info)> {
    if y.is_zero() {
        return None;
    }
    let mut info = Info::default();
    // x/y * 10^n = cx * 10^(n + q - p) / cy
    let e = n as i32 + y.s as i32 - x.s as i32;
    let (num, den) = if e >= 0 {
        (x.big().mul(&Big::pow10(e as u32)), y.big())
    } else {
        (x.big(), y.big().mul(&Big::pow10((-e) as u32)))
    };
    info.wide = !in_i128(&num) || !in_i128(&den);
    let (r, f) = round_exact_cls(&num, &den, mode);
    info.inexact = f != Frac::Zero;
    info.tie = f == Frac::Half;
    Some((r, info))
}

/// `x / y` (C03): 18 digits, normalised
pub fn exp_div(x: Q, y: Q, mode: Mode) -> (Exp, Info) {
    let (r, mut info) = match quotient_rounded(x, y, 18, mode) {
        None => return (Exp::Signal, Info::default()),
        Some(v) => v,
    };
    info.near = near_edge(&r);
    if x.is_zero() {
        return (Exp::Value { num: Big::ZERO, scale: 0, lo: 0, hi: 18 }, info);
    }
    if y.is_one() {
        // dividend unchanged, or normalised; never an overflow in value
        return (Exp::Value { num: x.big(), scale: x.s as u32, lo: 0, hi: 18 }, info);
    }
    if !r.fits_coeff() {
        info.overflow = true;
        info.edge = is_min(&r);
        // signal - or (a more capable implementation) the correct value
        let (c, f) = oracle::normalize(&r, 18);
        return (Exp::EitherValue { num: c, scale: f, lo: f as u8, hi: f as u8 }, info);
    }
    let (c, f) = oracle::normalize(&r, 18);
    (Exp::Exact(c.to_i128().unwrap(), f as u8), info)
}

/// `x.mul_rounded(y, n)` (C04)
pub fn exp_mul_rounded(x: Q, y: Q, n: u8, mode: Mode) -> (Exp, Info) {
    if n > 18 {
        return (Exp::Signal, Info::default());
    }
    let (r, scale, mut info) = product_rounded(x, y, n, mode);
    let e = finish(&r, scale, &mut info);
    (zero_ok(e, &r), info)
}

/// `x.div_rounded(y, n)` (C04)
pub fn exp_div_rounded(x: Q, y: Q, n: u8, mode: Mode) -> (Exp, Info) {
    if n > 18 {
        return (Exp::Signal, Info::default());
    }
    let (r, mut info) = match quotient_rounded(x, y, n, mode) {
        None => return (Exp::Signal, Info::default()),
        Some(v) => v,
    };
    let e = finish(&r, n, &mut info);
    (zero_ok(e, &r), info)
}

/// `x.quantize(q)` (C04): integer multiple of q nearest to x under the mode.
/// Returns the acceptable expectations (more than one only for a negative
/// quantum under Ceiling/Floor, where the statement can be read two ways).
pub fn exp_quantize(x: Q, q: Q, mode: Mode) -> (Vec<Exp>, Info) {
    let mut modes = vec![mode];
    if q.c < 0 {
        match mode {
            Mode::Ceiling => modes.push(Mode::Floor),
            Mode::Floor => modes.push(Mode::Ceiling),
            _ => {}
        }
    }
    let mut v = Vec::new();
    let mut info0 = Info::default();
    for (idx, m) in modes.iter().enumerate() {
        let (k, info) = match quotient_rounded(x, q, 0, *m) {
            None => return (vec![Exp::Signal], Info::default()),
            Some(v) => v,
        };
        if idx == 0 {
            info0 = info;
        }
        let prod = k.mul(&q.big());
        let e = if !k.fits_coeff() {
            info0.overflow = true;
            if prod.is_zero() {
                Exp::Signal
            } else {
                // k itself is not representable: signal (or the exact value)
                Exp::EitherValue { num: prod, scale: q.s as u32, lo: 0, hi: 18 }
            }
        } else if !prod.fits_coeff() {
            info0.overflow = true;
            Exp::EitherValue { num: prod, scale: q.s as u32, lo: 0, hi: 18 }
        } else {
            Exp::Value { num: prod, scale: q.s as u32, lo: 0, hi: 18 }
        };
        v.push(e);
    }
    (v, info0)
}

/// `d.round(n)` / `checked_round(n)` (C05)
pub fn exp_round(x: Q, n: i8, mode: Mode) -> (Exp, Info) {
    let mut info = Info::default();
    if n as i32 >= x.s as i32 {
        return (Exp::Exact(x.c, x.s), info);
    }
    let shift = (x.s as i32 - n as i32) as u32; // 1 ..= 146
    let (k, f) = round_exact_cls(&x.big(), &Big::pow10(shift), mode);
    info.inexact = f != Frac::Zero;
    info.tie = f == Frac::Half;
    // the statement fixes the value (the multiple of 10^-n selected by the mode); the
    // result may not carry more than max(n, 0) fractional digits, fewer are accepted
    if n >= 0 {
        let e = Exp::Value { num: k, scale: n as u32, lo: 0, hi: n as u8 };
        (zero_ok(e, &k), info)
    } else {
        let r = k.mul(&Big::pow10((-(n as i32)) as u32));
        let e = finish(&r, 0, &mut info);
        (zero_ok(e, &r), info)
    }
}

/// `x % y` (C10).  Returns (expectation, stepwise) where `stepwise` tells
/// that the dividend cannot be re-expressed with the divisor's scale.
pub fn exp_rem(x: Q, y: Q) -> (Exp, Info, bool) {
    let mut info = Info::default();
    if y.is_zero() {
        return (Exp::Signal, info, false);
    }
    let m = x.s.max(y.s);
    let xa = x.big().mul(&Big::pow10((m - x.s) as u32));
    let ya = y.big().mul(&Big::pow10((m - y.s) as u32));
    let (_, r) = xa.divrem_trunc(&ya);
    info.wide = !in_i128(&xa) || !in_i128(&ya);
    let stepwise = x.s < y.s && !in_i128(&xa);
    let e = if stepwise {
        Exp::EitherValue { num: r, scale: m as u32, lo: 0, hi: m }
    } else {
        Exp::Value { num: r, scale: m as u32, lo: 0, hi: m }
    };
    (e, info, stepwise)
}

/// `x + y` / `x - y` (C01): exact at scale max(p, q) or signal
pub fn exp_add_sub(x: Q, y: Q, sub: bool) -> (Exp, Info) {
    let mut info = Info::default();
    let m = x.s.max(y.s);
    let xa = x.big().mul(&Big::pow10((m - x.s) as u32));
    let ya = y.big().mul(&Big::pow10((m - y.s) as u32));
    let s = if sub { xa.sub(&ya) } else { xa.add(&ya) };
    info.near = near_edge(&s) || near_edge(&xa) || near_edge(&ya);
    if !in_i128(&xa) || !in_i128(&ya) || !in_i128(&s) {
        info.overflow = true;
        (Exp::Signal, info)
    } else if is_min(&xa) || is_min(&ya) || is_min(&s) {
        info.edge = true;
        (Exp::Either(s.to_i128().unwrap(), m), info)
    } else {
        (Exp::Exact(s.to_i128().unwrap(), m), info)
    }
}
