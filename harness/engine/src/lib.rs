//! Engine shared by all property checks: seeded multi-worker proptest runs,
//! case classification, distinct/non-trivial accounting, corpus replay,
//! known-finding matching, replay files, evidence files, exit codes.
//!
//! Exit codes: 0 = held on everything explored, 1 = violation (a line
//! `VIOLATION property=<id> replay=<path>` was printed), 2 = inconclusive
//! (harness/oracle problem, watchdog, generator did not reach a mandatory
//! class) - never reported as a violation.

use proptest::strategy::{BoxedStrategy, Strategy};
use proptest::test_runner::{Config, RngSeed, TestCaseError, TestError, TestRunner};
use serde::{de::DeserializeOwned, Deserialize, Serialize};
use std::cell::RefCell;
use std::collections::{BTreeMap, HashSet};
use std::fmt::Debug;
use std::hash::{Hash, Hasher};
use std::panic::{self, AssertUnwindSafe};
use std::path::{Path, PathBuf};
use std::sync::atomic::{AtomicBool, AtomicU64, Ordering};
use std::sync::{Arc, Mutex};
use std::time::Instant;

pub mod s128 {
    //! serde helper: i128 as decimal string (serde_json numbers are lossy
    //! beyond 64 bits on input).
    use serde::{Deserialize, Deserializer, Serializer};
    pub fn serialize<S: Serializer>(v: &i128, s: S) -> Result<S::Ok, S::Error> {
        s.serialize_str(&v.to_string())
    }
    pub fn deserialize<'de, D: Deserializer<'de>>(d: D) -> Result<i128, D::Error> {
        let s = String::deserialize(d)?;
        s.parse::<i128>().map_err(serde::de::Error::custom)
    }
}

#[derive(Clone, Copy, Debug, PartialEq, Eq)]
pub enum Tier {
    Quick,
    Thorough,
}

impl Tier {
    pub fn name(self) -> &'static str {
        match self {
            Tier::Quick => "quick",
            Tier::Thorough => "thorough",
        }
    }
}

#[derive(Clone, Debug)]
pub struct Failure {
    pub sig: String,
    pub detail: String,
}

/// Per-case recorder handed to `Prop::check`.
#[derive(Default)]
pub struct Ctx {
    pub labels: Vec<&'static str>,
    pub nontrivial: bool,
    pub failures: Vec<Failure>,
    pub subs: u64,
    /// verbose replay: checks may push human readable expected/observed lines
    pub trace: Option<Vec<String>>,
}

impl Ctx {
    pub fn label(&mut self, l: &'static str) {
        if !self.labels.contains(&l) {
            self.labels.push(l);
        }
    }
    pub fn nontrivial(&mut self) {
        self.nontrivial = true;
    }
    pub fn sub(&mut self) {
        self.subs += 1;
    }
    pub fn fail(&mut self, sig: &str, detail: String) {
        self.failures.push(Failure { sig: sig.to_string(), detail });
    }
    pub fn note(&mut self, f: impl FnOnce() -> String) {
        if let Some(t) = self.trace.as_mut() {
            t.push(f());
        }
    }
    pub fn tracing(&self) -> bool {
        self.trace.is_some()
    }
}

pub trait Prop: Sync + Send + 'static {
    type Case: Clone + Debug + Hash + Serialize + DeserializeOwned + Send + 'static;
    fn id(&self) -> &'static str;
    /// how cases are generated and what makes one non-trivial / distinct
    fn rule(&self) -> String;
    fn assumptions(&self) -> Vec<String>;
    fn strategy(&self, tier: Tier) -> BoxedStrategy<Self::Case>;
    /// number of generated cases for the tier (fixed work, not a time quota)
    fn cases(&self, tier: Tier) -> u64;
    fn check(&self, case: &Self::Case, ctx: &mut Ctx);
    /// labels that must have a non-zero count after generation; a zero is a
    /// generator bug and reported as exit 2
    fn mandatory_labels(&self, _tier: Tier) -> Vec<&'static str> {
        Vec::new()
    }
    /// enumerated sub-spaces: (name, total, producer(index) -> case).  Run
    /// completely in both tiers unless `thorough_only`.
    fn enumerations(&self, _tier: Tier) -> Vec<Enumeration<Self::Case>> {
        Vec::new()
    }
    /// constructed hard cases that are always run first (in addition to the
    /// committed corpus directory)
    fn builtin_corpus(&self) -> Vec<Self::Case> {
        Vec::new()
    }
    /// upper bound for the number of harness workers (C19 needs 1: its cases own real threads and must not interfere)
    /// Follow-up cases derived from the previous and the current generated case of a worker
    /// (e.g. the current dividend with the previous divisor). They are evaluated on the same
    /// thread right after the previous case, so that state a defective implementation keeps
    /// between calls (caches, memoised operands) meets a related second call.
    fn mix(&self, _prev: &Self::Case, _cur: &Self::Case) -> Vec<Self::Case> {
        Vec::new()
    }
    /// How often a single case is re-evaluated (in the generation phase and in replay mode)
    /// before a failure that was observed once is given up as not reproducible. Properties whose
    /// check contains a phase scheduled by the operating system (C19) return a larger number;
    /// for them an observed failure that never shows again is still reported (the oracle does
    /// not depend on the interleaving), with the case and the failure text as they were observed.
    fn replay_repeats(&self) -> u32 {
        1
    }
    fn max_shrink_iters(&self) -> u32 {
        8192
    }
    /// Evaluate every 256th generated case on a newly spawned thread.
    fn fresh_thread_cases(&self) -> bool {
        true
    }
    /// Repeat a share of the run in a fresh process in which the harness never calls
    /// `RoundingMode::set_default` (see `pristine()`).
    fn pristine_run(&self) -> bool {
        true
    }
    fn max_jobs(&self) -> Option<usize> {
        None
    }
    /// extra key/values for the coverage object
    fn extra_coverage(&self, _tier: Tier) -> BTreeMap<String, serde_json::Value> {
        BTreeMap::new()
    }
}

pub struct Enumeration<C> {
    pub name: &'static str,
    pub total: u64,
    pub produce: Box<dyn Fn(u64) -> C + Send + Sync>,
}

// ---------------------------------------------------------------------------
// panic capture

thread_local! {
    static LAST_PANIC: RefCell<Option<String>> = const { RefCell::new(None) };
}

pub fn install_silent_panic_hook() {
    panic::set_hook(Box::new(|info| {
        let msg = if let Some(s) = info.payload().downcast_ref::<&str>() {
            s.to_string()
        } else if let Some(s) = info.payload().downcast_ref::<String>() {
            s.clone()
        } else {
            "<non-string panic>".to_string()
        };
        let loc = info.location().map(|l| format!(" at {}:{}", l.file(), l.line())).unwrap_or_default();
        LAST_PANIC.with(|p| *p.borrow_mut() = Some(format!("{msg}{loc}")));
    }));
}

/// Run `f`, turning a panic into `Err(message)`.
pub fn catch<T>(f: impl FnOnce() -> T) -> Result<T, String> {
    match panic::catch_unwind(AssertUnwindSafe(f)) {
        Ok(v) => Ok(v),
        Err(_) => Err(LAST_PANIC.with(|p| p.borrow_mut().take()).unwrap_or_else(|| "<panic>".into())),
    }
}

// ---------------------------------------------------------------------------
// known findings

#[derive(Clone, Debug, Deserialize)]
pub struct Finding {
    pub id: String,
    pub property: String,
    pub status: String, // "open" | "fixed"
    #[serde(default)]
    pub signature: String,
    #[serde(default)]
    pub commit: String,
    pub what: String,
    #[serde(default)]
    pub record: String,
}

#[derive(Clone, Debug, Default, Deserialize)]
pub struct KnownFindings {
    #[serde(default)]
    pub findings: Vec<Finding>,
}

impl KnownFindings {
    pub fn load(root: &Path) -> KnownFindings {
        let p = root.join("known_findings.json");
        match std::fs::read_to_string(&p) {
            Ok(s) => match serde_json::from_str(&s) {
                Ok(k) => k,
                Err(e) => {
                    eprintln!("INCONCLUSIVE: cannot parse {}: {e}", p.display());
                    std::process::exit(2);
                }
            },
            Err(_) => KnownFindings::default(),
        }
    }
    /// an *open* finding of this property with exactly this signature
    pub fn open_match(&self, prop: &str, sig: &str) -> Option<&Finding> {
        self.findings
            .iter()
            .find(|f| f.status == "open" && f.property == prop && f.signature == sig)
    }
}

// ---------------------------------------------------------------------------
// options

#[derive(Clone, Debug)]
pub struct Opts {
    pub tier: Tier,
    pub seed: u64,
    pub jobs: usize,
    pub replay: Option<PathBuf>,
    pub cases_override: Option<u64>,
    pub root: PathBuf,
    pub no_evidence: bool,
    pub strict: bool,
}

impl Opts {
    pub fn from_args(args: &[String]) -> Opts {
        let mut tier = match std::env::var("VERIF_TIER").ok().as_deref() {
            Some("thorough") => Tier::Thorough,
            _ => Tier::Quick,
        };
        let mut seed: u64 = std::env::var("VERIF_SEED")
            .ok()
            .and_then(|s| s.trim().parse::<i128>().ok())
            .map(|v| v as u64)
            .unwrap_or(0);
        let mut jobs = std::thread::available_parallelism().map(|n| n.get()).unwrap_or(4).min(16);
        if let Ok(j) = std::env::var("VERIF_JOBS") {
            if let Ok(j) = j.parse::<usize>() {
                jobs = j.max(1);
            }
        }
        let mut replay = None;
        let mut cases_override = None;
        let mut no_evidence = false;
        let mut strict = false;
        let root = PathBuf::from(std::env::var("VERIF_ROOT").unwrap_or_else(|_| "/verif".into()));
        let mut i = 0;
        while i < args.len() {
            match args[i].as_str() {
                "--tier" => {
                    i += 1;
                    tier = match args.get(i).map(|s| s.as_str()) {
                        Some("thorough") => Tier::Thorough,
                        Some("quick") => Tier::Quick,
                        o => {
                            eprintln!("bad --tier {o:?}");
                            std::process::exit(2)
                        }
                    };
                }
                "--seed" => {
                    i += 1;
                    seed = args[i].parse::<i128>().expect("--seed") as u64;
                }
                "--jobs" => {
                    i += 1;
                    jobs = args[i].parse().expect("--jobs");
                }
                "--cases" => {
                    i += 1;
                    cases_override = Some(args[i].parse().expect("--cases"));
                }
                "--replay" => {
                    i += 1;
                    replay = Some(PathBuf::from(&args[i]));
                }
                "--no-evidence" => no_evidence = true,
                "--strict" => strict = true,
                o => {
                    eprintln!("unknown argument {o}");
                    std::process::exit(2);
                }
            }
            i += 1;
        }
        Opts { tier, seed, jobs, replay, cases_override, root, no_evidence, strict }
    }
}

fn splitmix(mut z: u64) -> u64 {
    z = z.wrapping_add(0x9E3779B97F4A7C15);
    z = (z ^ (z >> 30)).wrapping_mul(0xBF58476D1CE4E5B9);
    z = (z ^ (z >> 27)).wrapping_mul(0x94D049BB133111EB);
    z ^ (z >> 31)
}

fn str_hash(s: &str) -> u64 {
    let mut h = std::collections::hash_map::DefaultHasher::new();
    s.hash(&mut h);
    h.finish()
}

pub fn case_hash<C: Hash>(c: &C) -> u64 {
    let mut h = std::collections::hash_map::DefaultHasher::new();
    c.hash(&mut h);
    h.finish()
}

// ---------------------------------------------------------------------------
// statistics

const DISTINCT_CAP_PER_WORKER: usize = 3_000_000;
const SAMPLES_PER_LABEL: usize = 1;
const MAX_SAMPLES: usize = 16;

#[derive(Default)]
struct Stats {
    evaluations: u64,
    subs: u64,
    nontrivial: u64,
    distinct: HashSet<u64>,
    distinct_capped: bool,
    labels: BTreeMap<&'static str, u64>,
    samples: BTreeMap<&'static str, Vec<serde_json::Value>>,
    excluded_known: BTreeMap<String, u64>,
    known_examples: BTreeMap<String, String>,
}

impl Stats {
    fn record<C: Serialize + Hash>(&mut self, case: &C, ctx: &Ctx) {
        self.evaluations += 1;
        self.subs += ctx.subs.max(1);
        for l in &ctx.labels {
            *self.labels.entry(l).or_insert(0) += 1;
        }
        if ctx.nontrivial {
            self.nontrivial += 1;
            if self.distinct.len() < DISTINCT_CAP_PER_WORKER {
                self.distinct.insert(case_hash(case));
            } else {
                self.distinct_capped = true;
            }
            let key = ctx.labels.first().copied().unwrap_or("case");
            for l in ctx.labels.iter().copied().chain(std::iter::once(key)) {
                let e = self.samples.entry(l).or_default();
                if e.len() < SAMPLES_PER_LABEL {
                    e.push(serde_json::to_value(case).unwrap_or(serde_json::Value::Null));
                    break;
                }
            }
        }
    }
    fn merge(&mut self, o: Stats) {
        self.evaluations += o.evaluations;
        self.subs += o.subs;
        self.nontrivial += o.nontrivial;
        self.distinct_capped |= o.distinct_capped;
        for h in o.distinct {
            self.distinct.insert(h);
        }
        for (k, v) in o.labels {
            *self.labels.entry(k).or_insert(0) += v;
        }
        for (k, v) in o.samples {
            let e = self.samples.entry(k).or_default();
            for s in v {
                if e.len() < SAMPLES_PER_LABEL {
                    e.push(s);
                }
            }
        }
        for (k, v) in o.excluded_known {
            *self.excluded_known.entry(k).or_insert(0) += v;
        }
        for (k, v) in o.known_examples {
            self.known_examples.entry(k).or_insert(v);
        }
    }
}

#[derive(Serialize, Deserialize)]
struct ReplayFile<C> {
    property: String,
    case: C,
    #[serde(default)]
    failures: Vec<(String, String)>,
    #[serde(default)]
    origin: String,
    /// found in (and to be replayed in) a process that never calls set_default
    #[serde(default)]
    pristine: bool,
}

/// A failure that only shows after a particular sequence of earlier cases on the same
/// thread (state kept by the code under test): the whole window is the replay unit.
#[derive(Serialize, Deserialize)]
struct HistoryFile<C> {
    property: String,
    history: Vec<C>,
    #[serde(default)]
    failures: Vec<(String, String)>,
    #[serde(default)]
    origin: String,
    #[serde(default)]
    pristine: bool,
}

const HISTORY_WINDOW: usize = 64;

/// Evaluate a sequence of cases in order on a fresh thread; returns the failures
/// (not open known findings) of the first failing case, with its index.
fn eval_history<P: Prop>(prop: &Arc<P>, known: &KnownFindings, hist: &[P::Case]) -> Option<(usize, Vec<Failure>)> {
    let prop = prop.clone();
    let known = known.clone();
    let hist: Vec<P::Case> = hist.to_vec();
    std::thread::spawn(move || {
        install_silent_panic_hook();
        for (i, c) in hist.iter().enumerate() {
            let real = eval_case(&*prop, &known, c, None);
            if !real.is_empty() {
                return Some((i, real));
            }
        }
        None
    })
    .join()
    .unwrap_or(None)
}

struct Violation {
    replay: PathBuf,
    sigs: Vec<String>,
}

fn write_replay<C: Serialize + Hash>(
    root: &Path,
    prop: &str,
    case: &C,
    failures: &[Failure],
    origin: &str,
) -> PathBuf {
    let dir = root.join("replays").join(prop);
    let _ = std::fs::create_dir_all(&dir);
    let path = dir.join(format!("{:016x}.json", case_hash(case)));
    let rf = ReplayFile {
        property: prop.to_string(),
        case,
        failures: failures.iter().map(|f| (f.sig.clone(), f.detail.clone())).collect(),
        origin: origin.to_string(),
        pristine: pristine(),
    };
    let s = serde_json::to_string_pretty(&rf).unwrap();
    if let Err(e) = std::fs::write(&path, s) {
        eprintln!("warning: cannot write replay {}: {e}", path.display());
    }
    path
}

/// Evaluate one case; returns the failures that are NOT open known findings.
fn eval_case<P: Prop>(
    prop: &P,
    known: &KnownFindings,
    case: &P::Case,
    stats: Option<&mut Stats>,
) -> Vec<Failure> {
    let mut ctx = Ctx::default();
    prop.check(case, &mut ctx);
    let mut real = Vec::new();
    let mut excluded: Vec<(String, String)> = Vec::new();
    for f in ctx.failures.iter() {
        if known.open_match(prop.id(), &f.sig).is_some() {
            excluded.push((f.sig.clone(), f.detail.clone()));
        } else {
            real.push(f.clone());
        }
    }
    if let Some(st) = stats {
        st.record(case, &ctx);
        for (sig, detail) in excluded {
            *st.excluded_known.entry(sig.clone()).or_insert(0) += 1;
            st.known_examples.entry(sig).or_insert(detail);
        }
    }
    real
}

static PROGRESS: AtomicU64 = AtomicU64::new(0);
static DEBUG_CASES: AtomicBool = AtomicBool::new(false);
static CURRENT: Mutex<Vec<(u64, String)>> = Mutex::new(Vec::new());

fn debug_set_current(worker: u64, f: impl FnOnce() -> String) {
    if DEBUG_CASES.load(Ordering::Relaxed) {
        let mut g = CURRENT.lock().unwrap();
        let s = f();
        if let Some(e) = g.iter_mut().find(|e| e.0 == worker) {
            e.1 = s;
        } else {
            g.push((worker, s));
        }
    }
}

fn start_watchdog(limit_s: u64) {
    std::thread::spawn(move || {
        let mut last = PROGRESS.load(Ordering::Relaxed);
        let mut since = Instant::now();
        loop {
            std::thread::sleep(std::time::Duration::from_secs(2));
            let cur = PROGRESS.load(Ordering::Relaxed);
            if cur != last {
                last = cur;
                since = Instant::now();
            } else if since.elapsed().as_secs() > limit_s {
                println!("INCONCLUSIVE: watchdog - no progress for {limit_s}s (hang in a case?)");
                if let Ok(g) = CURRENT.try_lock() {
                    for (w, c) in g.iter() {
                        println!("  worker {w} current case: {c}");
                    }
                }
                std::process::exit(2);
            }
        }
    });
}

static FAIL_BUDGET: AtomicU64 = AtomicU64::new(12);

fn print_fail(f: &Failure) {
    let left = FAIL_BUDGET.load(Ordering::Relaxed);
    if left > 0 {
        FAIL_BUDGET.store(left - 1, Ordering::Relaxed);
        println!("FAIL [{}] {}", f.sig, f.detail);
        if left == 1 {
            println!("  (further FAIL lines suppressed)");
        }
    }
}

pub fn tick() {
    PROGRESS.fetch_add(1, Ordering::Relaxed);
}

static PRISTINE: AtomicBool = AtomicBool::new(false);

/// "Pristine process" mode: the harness must not call `RoundingMode::set_default` at all
/// (every case then runs under the initial RoundHalfEven). A defect that is only active in a
/// process where nobody ever changed the rounding mode - the normal situation of most users -
/// is invisible to a harness that installs a mode before every case.
pub fn pristine() -> bool {
    PRISTINE.load(Ordering::Relaxed)
}

/// Entry point used by every property check.
pub fn run_prop<P: Prop>(prop: P, opts: &Opts) -> ! {
    let t0 = Instant::now();
    install_silent_panic_hook();
    let id = prop.id();
    if std::env::var("VERIF_PRISTINE").as_deref() == Ok("1") {
        PRISTINE.store(true, Ordering::Relaxed);
    }
    let known = KnownFindings::load(&opts.root);
    let prop = Arc::new(prop);

    // ---------------- replay mode
    if let Some(path) = &opts.replay {
        let s = match std::fs::read_to_string(path) {
            Ok(s) => s,
            Err(e) => {
                println!("INCONCLUSIVE: cannot read {}: {e}", path.display());
                std::process::exit(2)
            }
        };
        if let Ok(hf) = serde_json::from_str::<HistoryFile<P::Case>>(&s) {
            if hf.pristine {
                PRISTINE.store(true, Ordering::Relaxed);
            }
            println!("replay {} property={id} (history of {} cases, evaluated in order on a fresh thread)", path.display(), hf.history.len());
            match eval_history(&prop, &known, &hf.history) {
                Some((i, real)) => {
                    println!("case #{i} of the history fails: {}", serde_json::to_string(&hf.history[i]).unwrap_or_default());
                    for f in &real {
                        println!("FAIL [{}] {}", f.sig, f.detail);
                    }
                    println!("VIOLATION property={id} replay={}", path.display());
                    std::process::exit(1);
                }
                None => {
                    println!("replay passed");
                    std::process::exit(0);
                }
            }
        }
        let rf: ReplayFile<P::Case> = match serde_json::from_str(&s) {
            Ok(r) => r,
            Err(e) => {
                println!("INCONCLUSIVE: cannot parse {}: {e}", path.display());
                std::process::exit(2)
            }
        };
        if rf.pristine {
            PRISTINE.store(true, Ordering::Relaxed);
            println!("(replayed in a process that never calls RoundingMode::set_default)");
        }
        let reps = prop.replay_repeats().max(1);
        let mut ctx = Ctx { trace: Some(Vec::new()), ..Ctx::default() };
        for attempt in 1..=reps {
            ctx = Ctx { trace: Some(Vec::new()), ..Ctx::default() };
            let r = catch(|| prop.check(&rf.case, &mut ctx));
            if let Err(m) = r {
                println!("INCONCLUSIVE: harness panicked during replay: {m}");
                std::process::exit(2);
            }
            if !ctx.failures.is_empty() {
                if reps > 1 {
                    println!("(failed in attempt {attempt} of at most {reps}: the check contains an operating-system scheduled phase)");
                }
                break;
            }
        }
        if reps > 1 && ctx.failures.is_empty() {
            println!("(no failure in {reps} attempts)");
        }
        println!("replay {} property={id}", path.display());
        println!("case: {}", serde_json::to_string(&rf.case).unwrap());
        for l in ctx.trace.as_ref().unwrap() {
            println!("  {l}");
        }
        let mut bad = false;
        for f in &ctx.failures {
            if let (false, Some(k)) = (opts.strict, known.open_match(id, &f.sig)) {
                println!("KNOWN-FINDING: property={id} {} [{}] {}", k.what, f.sig, f.detail);
            } else {
                println!("FAIL [{}] {}", f.sig, f.detail);
                bad = true;
            }
        }
        if bad {
            println!("VIOLATION property={id} replay={}", path.display());
            std::process::exit(1);
        }
        println!("replay passed");
        std::process::exit(0);
    }

    let wd = std::env::var("VERIF_WATCHDOG_S").ok().and_then(|s| s.parse().ok()).unwrap_or(300);
    if std::env::var("VERIF_DEBUG_CASES").is_ok() {
        DEBUG_CASES.store(true, Ordering::Relaxed);
    }
    start_watchdog(wd);
    let mut total = Stats::default();
    let mut violations: Vec<Violation> = Vec::new();
    let mut corpus_replayed = 0u64;

    // ---------------- corpus (committed files + built-in constructed cases)
    let mut corpus: Vec<(String, P::Case)> = Vec::new();
    for (i, c) in prop.builtin_corpus().into_iter().enumerate() {
        corpus.push((format!("builtin#{i}"), c));
    }
    let cdir = opts.root.join("corpus").join(id);
    if let Ok(rd) = std::fs::read_dir(&cdir) {
        let mut files: Vec<PathBuf> = rd.filter_map(|e| e.ok().map(|e| e.path())).collect();
        files.sort();
        for f in files {
            if f.extension().and_then(|e| e.to_str()) != Some("json") {
                continue;
            }
            let s = std::fs::read_to_string(&f).unwrap_or_default();
            match serde_json::from_str::<ReplayFile<P::Case>>(&s) {
                Ok(rf) => corpus.push((f.display().to_string(), rf.case)),
                Err(e) => {
                    println!("INCONCLUSIVE: corpus file {} does not parse: {e}", f.display());
                    std::process::exit(2);
                }
            }
        }
    }
    for (name, c) in &corpus {
        let r = catch(|| eval_case(&*prop, &known, c, Some(&mut total)));
        tick();
        corpus_replayed += 1;
        match r {
            Err(m) => {
                println!("INCONCLUSIVE: harness panicked on corpus case {name}: {m}");
                std::process::exit(2);
            }
            Ok(real) => {
                if !real.is_empty() {
                    let p = write_replay(&opts.root, id, c, &real, &format!("corpus {name}"));
                    for f in &real {
                        print_fail(f);
                    }
                    violations.push(Violation { replay: p, sigs: real.iter().map(|f| f.sig.clone()).collect() });
                }
            }
        }
    }

    // ---------------- enumerated sub-spaces
    let mut enum_report: Vec<serde_json::Value> = Vec::new();
    let mut any_exhaustive = false;
    for en in prop.enumerations(opts.tier) {
        let en = Arc::new(en);
        let jobs = opts.jobs as u64;
        let mut handles = Vec::new();
        let stop = Arc::new(AtomicBool::new(false));
        for w in 0..jobs {
            let en = en.clone();
            let prop = prop.clone();
            let known = known.clone();
            let stop = stop.clone();
            handles.push(std::thread::spawn(move || {
                install_silent_panic_hook();
                let mut st = Stats::default();
                let mut viol: Option<(P::Case, Vec<Failure>)> = None;
                let mut i = w;
                while i < en.total {
                    if stop.load(Ordering::Relaxed) {
                        break;
                    }
                    let c = (en.produce)(i);
                    let real = eval_case(&*prop, &known, &c, Some(&mut st));
                    if (i / jobs) % 1024 == 0 {
                        tick();
                    }
                    if !real.is_empty() {
                        viol = Some((c, real));
                        stop.store(true, Ordering::Relaxed);
                        break;
                    }
                    i += jobs;
                }
                (st, viol)
            }));
        }
        let mut done = 0u64;
        for h in handles {
            match h.join() {
                Ok((st, viol)) => {
                    done += st.evaluations;
                    total.merge(st);
                    if let Some((c, real)) = viol {
                        let p = write_replay(&opts.root, id, &c, &real, &format!("enumeration {}", en.name));
                        for f in &real {
                            print_fail(f);
                        }
                        violations.push(Violation { replay: p, sigs: real.iter().map(|f| f.sig.clone()).collect() });
                    }
                }
                Err(_) => {
                    println!("INCONCLUSIVE: worker died in enumeration {} (harness/oracle panic)", en.name);
                    std::process::exit(2);
                }
            }
        }
        let complete = done == en.total;
        any_exhaustive |= complete;
        enum_report.push(serde_json::json!({"name": en.name, "size": en.total, "evaluated": done, "complete": complete}));
    }

    // ---------------- generated cases
    let cases = opts.cases_override.unwrap_or_else(|| prop.cases(opts.tier));
    let jobs = opts.jobs.max(1).min(prop.max_jobs().unwrap_or(usize::MAX)) as u64;
    let per = cases.div_ceil(jobs);
    let mut handles = Vec::new();
    let found = Arc::new(Mutex::new(Vec::<(P::Case, Vec<Failure>, String)>::new()));
    let found_hist = Arc::new(Mutex::new(Vec::<(Vec<P::Case>, Vec<Failure>, String)>::new()));
    for w in 0..jobs {
        let prop = prop.clone();
        let known = known.clone();
        let tier = opts.tier;
        let seed = splitmix(opts.seed ^ splitmix(str_hash(id)) ^ splitmix(w.wrapping_mul(0x1234567)));
        let found = found.clone();
        let found_hist = found_hist.clone();
        handles.push(std::thread::spawn(move || {
            install_silent_panic_hook();
            let strat = prop.strategy(tier);
            let stats = RefCell::new(Stats::default());
            let failed = std::cell::Cell::new(false);
            let invocations = std::cell::Cell::new(0u64);
            let window: RefCell<std::collections::VecDeque<P::Case>> = RefCell::new(std::collections::VecDeque::with_capacity(HISTORY_WINDOW + 1));
            let first_history: RefCell<Vec<P::Case>> = RefCell::new(Vec::new());
            let prev_case: RefCell<Option<P::Case>> = RefCell::new(None);
            let mixed_fail: RefCell<Option<(P::Case, Vec<Failure>)>> = RefCell::new(None);
            let mixed_count = std::cell::Cell::new(0u64);
            let fresh_thread_cases = std::cell::Cell::new(0u64);
            let first_fail: RefCell<Option<(P::Case, Vec<Failure>)>> = RefCell::new(None);
            let cfg = Config {
                cases: per as u32,
                rng_seed: RngSeed::Fixed(seed),
                failure_persistence: None,
                max_shrink_iters: prop.max_shrink_iters(),
                max_global_rejects: 65536,
                verbose: 0,
                ..Config::default()
            };
            let mut runner = TestRunner::new(cfg);
            let res = runner.run(&strat, |case| {
                invocations.set(invocations.get() + 1);
                if invocations.get() % 256 == 0 {
                    tick();
                }
                debug_set_current(w, || serde_json::to_string(&case).unwrap_or_default());
                if failed.get() && mixed_fail.borrow().is_some() {
                    // a follow-up case failed: it is not a value of the strategy, nothing to shrink
                    return Ok(());
                }
                // every 4th case: follow-up cases built from the previous and the current case
                if !failed.get() && invocations.get() % 4 == 0 {
                    let mixes = match prev_case.borrow().as_ref() {
                        Some(p) => prop.mix(p, &case),
                        None => Vec::new(),
                    };
                    for m in mixes {
                        mixed_count.set(mixed_count.get() + 1);
                        {
                            let mut wd = window.borrow_mut();
                            if wd.len() == HISTORY_WINDOW {
                                wd.pop_front();
                            }
                            wd.push_back(m.clone());
                        }
                        match catch(|| eval_case(&*prop, &known, &m, Some(&mut stats.borrow_mut()))) {
                            Ok(real) if real.is_empty() => {}
                            Ok(real) => {
                                *first_history.borrow_mut() = window.borrow().iter().cloned().collect();
                                failed.set(true);
                                let sig = real[0].sig.clone();
                                *mixed_fail.borrow_mut() = Some((m, real));
                                return Err(TestCaseError::fail(sig));
                            }
                            Err(msg) => {
                                println!(
                                    "INCONCLUSIVE: harness/oracle panic (not a verdict about the code): {msg}\n  case: {}",
                                    serde_json::to_string(&m).unwrap_or_default()
                                );
                                std::process::exit(2);
                            }
                        }
                    }
                }
                if !failed.get() {
                    *prev_case.borrow_mut() = Some(case.clone());
                }
                if !failed.get() {
                    let mut wd = window.borrow_mut();
                    if wd.len() == HISTORY_WINDOW {
                        wd.pop_front();
                    }
                    wd.push_back(case.clone());
                }
                let r = if !failed.get() && invocations.get() % 256 == 17 && prop.fresh_thread_cases() {
                    // every 256th case runs on a thread of its own: per-thread state of the code under
                    // test (lazily initialised tables, memos, the thread's rounding mode) is in its
                    // initial condition there, which the long-lived worker thread never is again
                    fresh_thread_cases.set(fresh_thread_cases.get() + 1);
                    let mut st = stats.borrow_mut();
                    let (prop_r, known_r, case_c, st_r) = (&*prop, &known, case.clone(), &mut *st);
                    std::thread::scope(|sc| {
                        sc.spawn(move || {
                            install_silent_panic_hook();
                            catch(|| eval_case(prop_r, known_r, &case_c, Some(st_r)))
                        })
                        .join()
                        .unwrap_or_else(|_| Err("the fresh evaluation thread died".to_string()))
                    })
                } else {
                    catch(|| {
                        if failed.get() {
                            // shrinking: do not count
                            eval_case(&*prop, &known, &case, None)
                        } else {
                            eval_case(&*prop, &known, &case, Some(&mut stats.borrow_mut()))
                        }
                    })
                };
                let real = match r {
                    Ok(v) => v,
                    Err(m) => {
                        println!(
                            "INCONCLUSIVE: harness/oracle panic (not a verdict about the code): {m}\n  case: {}",
                            serde_json::to_string(&case).unwrap_or_default()
                        );
                        std::process::exit(2);
                    }
                };
                if real.is_empty() {
                    Ok(())
                } else {
                    if !failed.get() {
                        *first_history.borrow_mut() = window.borrow().iter().cloned().collect();
                        *first_fail.borrow_mut() = Some((case.clone(), real.clone()));
                    }
                    failed.set(true);
                    Err(TestCaseError::fail(real[0].sig.clone()))
                }
            });
            match res {
                Ok(()) => {}
                Err(TestError::Fail(_, min_case)) => {
                    // a failing follow-up case replaces the (passing) generated case it was derived from
                    let mixed = mixed_fail.borrow_mut().take();
                    let (min_case, real) = match mixed {
                        Some((m, real0)) => match eval_history(&prop, &known, std::slice::from_ref(&m)) {
                            Some((_, real)) => (m, real),          // fails alone on a fresh thread
                            None => {
                                let h = first_history.borrow().clone();
                                if eval_history(&prop, &known, &h).is_some() {
                                    (m, Vec::new())                // needs its history (handled below)
                                } else {
                                    (m, real0)                     // report what was observed
                                }
                            }
                        },
                        None => {
                            let mut min_case = min_case;
                            let mut real = eval_case(&*prop, &known, &min_case, None);
                            if real.is_empty() {
                                // found on a fresh thread (per-thread state in its initial condition)?
                                // then it shows alone on a fresh thread, not on this long-lived worker
                                let first = first_fail.borrow().clone();
                                if let Some((_, r)) = eval_history(&prop, &known, std::slice::from_ref(&min_case)) {
                                    real = r;
                                } else if let Some((c, _)) = first {
                                    if let Some((_, r)) = eval_history(&prop, &known, std::slice::from_ref(&c)) {
                                        min_case = c;
                                        real = r;
                                    }
                                }
                            }
                            (min_case, real)
                        }
                    };
                    let mut hist: Vec<P::Case> = Vec::new();
                    if real.is_empty() {
                        // not reproducible on its own: does the window of preceding cases reproduce it?
                        let h = first_history.borrow().clone();
                        if let Some((i, hreal)) = eval_history(&prop, &known, &h) {
                            hist = h[..=i].to_vec();
                            // greedy reduction: drop earlier cases that are not needed for the last one to fail
                            let mut k = 0;
                            while hist.len() > 1 && k < hist.len() - 1 {
                                let mut t = hist.clone();
                                t.remove(k);
                                match eval_history(&prop, &known, &t) {
                                    Some((j, _)) if j == t.len() - 1 => hist = t,
                                    _ => k += 1,
                                }
                            }
                            let hreal = eval_history(&prop, &known, &hist).map(|r| r.1).unwrap_or(hreal);
                            found_hist.lock().unwrap().push((hist.clone(), hreal, format!("generated seed={seed} worker={w} (history-dependent)")));
                        }
                    }
                    if hist.is_empty() {
                        let (mut min_case, mut real) = (min_case, real);
                        let reps = prop.replay_repeats();
                        if real.is_empty() && reps > 1 {
                            // timing-dependent: try the shrunk case, then the case as first observed, repeatedly
                            let first = first_fail.borrow_mut().take();
                            let mut cands: Vec<P::Case> = vec![min_case.clone()];
                            if let Some((c, _)) = &first {
                                cands.push(c.clone());
                            }
                            'outer: for c in cands {
                                for _ in 0..reps {
                                    let r = eval_case(&*prop, &known, &c, None);
                                    if !r.is_empty() {
                                        min_case = c;
                                        real = r;
                                        break 'outer;
                                    }
                                }
                            }
                            if real.is_empty() {
                                if let Some((c, r)) = first {
                                    // observed once, never again: still a violation of a property that
                                    // quantifies over all interleavings; report it as observed
                                    println!("note: a failure observed in an operating-system scheduled phase did not show again in {reps} re-evaluations; it is reported as it was observed");
                                    min_case = c;
                                    real = r;
                                }
                            }
                        }
                        found.lock().unwrap().push((min_case, real, format!("generated seed={seed} worker={w}")));
                    }
                }
                Err(TestError::Abort(r)) => {
                    println!("INCONCLUSIVE: proptest aborted: {r}");
                    std::process::exit(2);
                }
            }
            let st = stats.into_inner();
            (st, invocations.get(), failed.get(), mixed_count.get(), fresh_thread_cases.get())
        }));
    }
    let mut generated = 0u64;
    let mut follow_ups = 0u64;
    let mut fresh_threads = 0u64;
    for h in handles {
        match h.join() {
            Ok((st, inv, failed, mixed_n, fresh_n)) => {
                follow_ups += mixed_n;
                fresh_threads += fresh_n;
                if !failed && inv < per {
                    println!("INCONCLUSIVE: a worker executed {inv} of {per} cases (runner executed too few cases)");
                    std::process::exit(2);
                }
                generated += st.evaluations;
                total.merge(st);
            }
            Err(e) => {
                let msg = e
                    .downcast_ref::<&str>()
                    .map(|s| s.to_string())
                    .or_else(|| e.downcast_ref::<String>().cloned())
                    .unwrap_or_default();
                println!("INCONCLUSIVE: worker thread died (harness/oracle/generator panic, not a verdict about the code): {msg}");
                std::process::exit(2);
            }
        }
    }
    for (hist, real, origin) in found_hist.lock().unwrap().drain(..) {
        let dir = opts.root.join("replays").join(id);
        let _ = std::fs::create_dir_all(&dir);
        let path = dir.join(format!("history-{:016x}.json", case_hash(&hist)));
        let n = hist.len();
        let hf = HistoryFile {
            property: id.to_string(),
            history: hist,
            failures: real.iter().map(|f| (f.sig.clone(), f.detail.clone())).collect(),
            origin,
            pristine: pristine(),
        };
        let _ = std::fs::write(&path, serde_json::to_string_pretty(&hf).unwrap());
        for f in real.iter().take(2) {
            print_fail(f);
        }
        println!("  the failure depends on the preceding cases on the same thread: the replay file holds the sequence of {n} cases");
        let mut sigs: Vec<String> = real.iter().map(|f| f.sig.clone()).collect();
        sigs.push(format!("{id}/history-dependent"));
        violations.push(Violation { replay: path, sigs });
    }
    for (c, real, origin) in found.lock().unwrap().drain(..) {
        if real.is_empty() {
            // flaky: failed during the run but not when re-evaluated
            if violations.is_empty() {
                println!("INCONCLUSIVE: a failing case did not reproduce when re-evaluated ({origin})");
                std::process::exit(2);
            }
            println!("note: a generated failing case did not reproduce when re-evaluated ({origin}); reporting the reproducible violations");
            continue;
        }
        let p = write_replay(&opts.root, id, &c, &real, &origin);
        for f in real.iter().take(2) {
            print_fail(f);
        }
        if FAIL_BUDGET.load(Ordering::Relaxed) > 0 {
            println!("  minimal case: {}", serde_json::to_string(&c).unwrap());
        }
        violations.push(Violation { replay: p, sigs: real.iter().map(|f| f.sig.clone()).collect() });
    }

    // ---------------- mandatory classes
    let mut missing = Vec::new();
    if violations.is_empty() && !pristine() {
        for l in prop.mandatory_labels(opts.tier) {
            if total.labels.get(l).copied().unwrap_or(0) == 0 {
                missing.push(l);
            }
        }
    }

    // ---------------- known findings report
    for (sig, n) in &total.excluded_known {
        if let Some(k) = known.open_match(id, sig) {
            println!(
                "KNOWN-FINDING: property={id} {} [{} x{}; e.g. {}]",
                k.what,
                sig,
                n,
                total.known_examples.get(sig).cloned().unwrap_or_default()
            );
        }
    }

    // ---------------- further builds of the same check (VERIF_SECOND_BIN = "description=path;description=path"):
    // a binary without overflow checks / debug assertions, and one against fpdec with feature packed and
    // without its default features
    let mut second: Vec<serde_json::Value> = Vec::new();
    if violations.is_empty() && missing.is_empty() {
        let list = std::env::var("VERIF_SECOND_BIN").unwrap_or_default();
        for entry in list.split(';').filter(|e| !e.is_empty()) {
            let (desc, bin) = match entry.rsplit_once('=') {
                Some((d, b)) => (d.to_string(), b.to_string()),
                None => ("opt-level 3, overflow-checks off, debug-assertions off".to_string(), entry.to_string()),
            };
            if !std::path::Path::new(&bin).exists() {
                println!("INCONCLUSIVE: {bin} ({desc}) does not exist");
                std::process::exit(2);
            }
            // keep the watchdog quiet while the other build runs (it has its own watchdog)
            let waiting = Arc::new(AtomicBool::new(true));
            {
                let waiting = waiting.clone();
                std::thread::spawn(move || {
                    while waiting.load(Ordering::Relaxed) {
                        tick();
                        std::thread::sleep(std::time::Duration::from_millis(500));
                    }
                });
            }
            let out = std::process::Command::new(&bin)
                .arg(id)
                .args(["--tier", opts.tier.name(), "--seed", &(opts.seed as i128).to_string(), "--jobs", &opts.jobs.to_string(), "--no-evidence"])
                .args(opts.cases_override.map(|c| vec!["--cases".to_string(), c.to_string()]).unwrap_or_default())
                .env_remove("VERIF_SECOND_BIN")
                .output();
            waiting.store(false, Ordering::Relaxed);
            match out {
                Err(e) => {
                    println!("INCONCLUSIVE: cannot run {bin}: {e}");
                    std::process::exit(2);
                }
                Ok(o) => {
                    let text = String::from_utf8_lossy(&o.stdout).to_string();
                    let code = o.status.code().unwrap_or(2);
                    if code != 0 {
                        println!("--- build [{desc}] ({bin}):");
                        for l in text.lines().filter(|l| !l.starts_with("labels:")) {
                            println!("{l}");
                        }
                        std::process::exit(if code == 1 { 1 } else { 2 });
                    }
                    let evals = text
                        .lines()
                        .find(|l| l.starts_with(id) && l.contains("evaluations="))
                        .and_then(|l| l.split("evaluations=").nth(1))
                        .and_then(|r| r.split(' ').next())
                        .and_then(|n| n.parse::<u64>().ok())
                        .unwrap_or(0);
                    // KNOWN-FINDING lines were already reported by the first build
                    second.push(serde_json::json!({"build": desc, "evaluations": evals, "violations": 0}));
                }
            }
        }
    }

    // ---------------- pristine process: a share of the run repeated by a fresh process of this
    // binary in which the harness never calls set_default (all cases under the initial RoundHalfEven)
    let mut pristine_report: Option<serde_json::Value> = None;
    if violations.is_empty() && missing.is_empty() && !pristine() && prop.pristine_run() {
        let cases = (opts.cases_override.unwrap_or_else(|| prop.cases(opts.tier)) / 4).max(1);
        let waiting = Arc::new(AtomicBool::new(true));
        {
            let waiting = waiting.clone();
            std::thread::spawn(move || {
                while waiting.load(Ordering::Relaxed) {
                    tick();
                    std::thread::sleep(std::time::Duration::from_millis(500));
                }
            });
        }
        let exe = std::env::current_exe().expect("current exe");
        let out = std::process::Command::new(&exe)
            .arg(id)
            .args(["--tier", opts.tier.name(), "--seed", &(opts.seed as i128).to_string(), "--jobs", &opts.jobs.to_string(), "--no-evidence", "--cases", &cases.to_string()])
            .env("VERIF_PRISTINE", "1")
            .env_remove("VERIF_SECOND_BIN")
            .output();
        waiting.store(false, Ordering::Relaxed);
        match out {
            Err(e) => {
                println!("INCONCLUSIVE: cannot run {}: {e}", exe.display());
                std::process::exit(2);
            }
            Ok(o) => {
                let text = String::from_utf8_lossy(&o.stdout).to_string();
                let code = o.status.code().unwrap_or(2);
                if code != 0 {
                    println!("--- in a fresh process that never calls RoundingMode::set_default (all cases under the initial RoundHalfEven):");
                    for l in text.lines().filter(|l| !l.starts_with("labels:")) {
                        println!("{l}");
                    }
                    std::process::exit(if code == 1 { 1 } else { 2 });
                }
                let evals = text
                    .lines()
                    .find(|l| l.starts_with(id) && l.contains("evaluations="))
                    .and_then(|l| l.split("evaluations=").nth(1))
                    .and_then(|r| r.split(' ').next())
                    .and_then(|n| n.parse::<u64>().ok())
                    .unwrap_or(0);
                pristine_report = Some(serde_json::json!({"what": "fresh process, the harness never calls RoundingMode::set_default; every case judged under the initial RoundHalfEven", "evaluations": evals, "violations": 0}));
            }
        }
    }

    // ---------------- evidence
    let wall = t0.elapsed().as_secs_f64();
    let mut samples: Vec<serde_json::Value> = Vec::new();
    for (l, v) in &total.samples {
        for s in v {
            if samples.len() < MAX_SAMPLES {
                samples.push(serde_json::json!({"label": l, "case": s}));
            }
        }
    }
    if samples.is_empty() {
        samples.push(serde_json::json!({"note": "no non-trivial case recorded"}));
    }
    let mut cov = serde_json::Map::new();
    cov.insert("evaluations".into(), total.evaluations.into());
    cov.insert("distinct_nontrivial".into(), (total.distinct.len() as u64).into());
    cov.insert("nontrivial_total".into(), total.nontrivial.into());
    cov.insert(
        "distinct_counting".into(),
        if total.distinct_capped {
            "64-bit hashes of non-trivial cases; per-worker set capped at 3e6, so this is a lower bound".into()
        } else {
            "64-bit hashes of all non-trivial cases (measured)".into()
        },
    );
    cov.insert("rule".into(), prop.rule().into());
    cov.insert("samples".into(), samples.into());
    cov.insert("operations_checked".into(), total.subs.into());
    cov.insert("generated".into(), generated.into());
    cov.insert(
        "cases_on_a_fresh_thread".into(),
        serde_json::json!({"count": fresh_threads, "what": "every 256th generated case of a worker is evaluated on a newly spawned thread (per-thread state of the code under test in its initial condition)"}),
    );
    if follow_ups > 0 {
        cov.insert(
            "follow_up_cases".into(),
            serde_json::json!({"count": follow_ups, "what": "included in 'generated': before every 4th generated case of a worker, cases built from the previous and the current case (current left operand with the previous right operand and vice versa) are evaluated on the same thread, so that state kept between calls meets a related second call"}),
        );
    }
    cov.insert("corpus_replayed".into(), corpus_replayed.into());
    cov.insert("labels".into(), serde_json::to_value(&total.labels).unwrap());
    cov.insert("excluded_known".into(), serde_json::to_value(&total.excluded_known).unwrap());
    if !enum_report.is_empty() {
        cov.insert("enumerated".into(), enum_report.into());
        cov.insert("exhaustive".into(), any_exhaustive.into());
    }
    cov.insert("workers".into(), jobs.into());
    if let Some(p) = pristine_report {
        cov.insert("pristine_process_run".into(), p);
    }
    if !second.is_empty() {
        cov.insert("other_builds".into(), serde_json::Value::Array(second));
    }
    for (k, v) in prop.extra_coverage(opts.tier) {
        cov.insert(k, v);
    }
    let ev = serde_json::json!({
        "property_id": id,
        "tier": opts.tier.name(),
        "seed": (opts.seed as i64),
        "level": "exploration",
        "coverage": cov,
        "assumptions": prop.assumptions(),
        "wall_s": wall,
        "violations": violations.len(),
    });
    if !opts.no_evidence {
        let edir = opts.root.join("evidence");
        let _ = std::fs::create_dir_all(&edir);
        let p = edir.join(format!("{id}.json"));
        if let Err(e) = std::fs::write(&p, serde_json::to_string_pretty(&ev).unwrap()) {
            println!("INCONCLUSIVE: cannot write evidence {}: {e}", p.display());
            std::process::exit(2);
        }
    }
    println!(
        "{id} tier={} seed={} evaluations={} operations={} nontrivial={} distinct_nontrivial={} corpus={} wall={:.1}s",
        opts.tier.name(),
        opts.seed,
        total.evaluations,
        total.subs,
        total.nontrivial,
        total.distinct.len(),
        corpus_replayed,
        wall
    );
    let mut top: Vec<(&&str, &u64)> = total.labels.iter().collect();
    top.sort();
    let txt: Vec<String> = top.iter().map(|(k, v)| format!("{k}={v}")).collect();
    println!("labels: {}", txt.join(" "));

    if !violations.is_empty() {
        let mut seen: HashSet<PathBuf> = HashSet::new();
        let mut by_sig: BTreeMap<String, usize> = BTreeMap::new();
        for v in &violations {
            for s in &v.sigs {
                *by_sig.entry(s.clone()).or_insert(0) += 1;
            }
        }
        println!("violation signatures: {by_sig:?}");
        for v in &violations {
            if seen.insert(v.replay.clone()) && seen.len() <= 8 {
                println!("VIOLATION property={id} replay={}", v.replay.display());
            }
        }
        std::process::exit(1);
    }
    if !missing.is_empty() {
        println!("INCONCLUSIVE: generator never produced mandatory class(es) {missing:?}");
        std::process::exit(2);
    }
    std::process::exit(0);
}

/// Map a generated 16-bit index monotonically onto 0..len (shrinks towards 0).
pub fn pick(i: u16, len: usize) -> usize {
    ((i as usize) * len) >> 16
}

pub fn boxed<S: Strategy + 'static>(s: S) -> BoxedStrategy<S::Value> {
    s.boxed()
}
