//! vcheck <ID> [--tier quick|thorough] [--replay FILE] [--seed N] [--cases N] [--jobs N]

use engine::Opts;

fn main() {
    let args: Vec<String> = std::env::args().skip(1).collect();
    if args.is_empty() {
        eprintln!("usage: vcheck <ID> [--tier quick|thorough] [--replay FILE] [--seed N] [--cases N] [--jobs N]");
        std::process::exit(2);
    }
    let id = args[0].clone();
    if id == "c19-exec" {
        vp_sys::c19::exec_child();
        return;
    }
    if id == "c08-exec" {
        vp_misc::c08::exec_child();
        return;
    }
    if id == "selftest-dump" {
        let n: usize = args.get(1).and_then(|s| s.parse().ok()).unwrap_or(1000);
        let seed: u64 = args.get(2).and_then(|s| s.parse().ok()).unwrap_or(1);
        vp_text::selftest::dump(n, seed);
        return;
    }
    let opts = Opts::from_args(&args[1..]);
    // each group crate runs the check if it owns the id (and never returns then)
    vp_arith::dispatch(&id, &opts);
    vp_arith2::dispatch(&id, &opts);
    vp_text::dispatch(&id, &opts);
    vp_misc::dispatch(&id, &opts);
    vp_sys::dispatch(&id, &opts);
    eprintln!("unknown property {id}");
    std::process::exit(2);
}
