//! vcheck <ID> [--tier quick|thorough] [--replay FILE] [--seed N] [--cases N] [--jobs N]

mod common;
mod c01;

use engine::{run_prop, Opts};

fn main() {
    let args: Vec<String> = std::env::args().skip(1).collect();
    if args.is_empty() {
        eprintln!("usage: vcheck <ID> [--tier quick|thorough] [--replay FILE] [--seed N] [--cases N] [--jobs N]");
        std::process::exit(2);
    }
    let id = args[0].clone();
    let opts = Opts::from_args(&args[1..]);
    match id.as_str() {
        "C01" => run_prop(c01::C01, &opts),
        o => {
            eprintln!("unknown property {o}");
            std::process::exit(2);
        }
    }
}
