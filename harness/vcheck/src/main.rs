//! vcheck <ID> [--tier quick|thorough] [--replay FILE] [--seed N] [--cases N] [--jobs N]


use engine::{run_prop, Opts};
use vcheck::*;

fn main() {
    let args: Vec<String> = std::env::args().skip(1).collect();
    if args.is_empty() {
        eprintln!("usage: vcheck <ID> [--tier quick|thorough] [--replay FILE] [--seed N] [--cases N] [--jobs N]");
        std::process::exit(2);
    }
    let id = args[0].clone();
    if id == "c19-exec" {
        c19::exec_child();
        return;
    }
    if id == "selftest-dump" {
        let n: usize = args.get(1).and_then(|s| s.parse().ok()).unwrap_or(1000);
        let seed: u64 = args.get(2).and_then(|s| s.parse().ok()).unwrap_or(1);
        selftest::dump(n, seed);
        return;
    }
    let opts = Opts::from_args(&args[1..]);
    match id.as_str() {
        "C01" => run_prop(c01::C01, &opts),
        "C02" => run_prop(c02::C02, &opts),
        "C03" => run_prop(c03::C03, &opts),
        "C04" => run_prop(c04::C04, &opts),
        "C05" => run_prop(c05::C05, &opts),
        "C06" => run_prop(c06::C06, &opts),
        "C07" => run_prop(c07::C07, &opts),
        "C08" => run_prop(c08::C08, &opts),
        "C09" => run_prop(c09::C09, &opts),
        "C10" => run_prop(c10::C10, &opts),
        "C11" => run_prop(c11::C11, &opts),
        "C12" => run_prop(c12::C12, &opts),
        "C13" => run_prop(c13::C13, &opts),
        "C14" => run_prop(c14::C14, &opts),
        "C15" => run_prop(c15::C15, &opts),
        "C16" => run_prop(c16::C16, &opts),
        "C17" => run_prop(c17::C17, &opts),
        "C18" => c18::run(&opts),
        "C19" => run_prop(c19::C19, &opts),
        "C20" => {
            let p = c20::prepare(&opts.root, opts.tier);
            run_prop(p, &opts)
        }
        o => {
            eprintln!("unknown property {o}");
            std::process::exit(2);
        }
    }
}
