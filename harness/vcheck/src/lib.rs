//! Property checks for fpdec: re-exports of the group crates (used by the vcheck binary and the fuzz targets).

pub use vcore::{arith, common, fuzzsupport, guard};
pub use vp_arith::{c01, c02, c03, c10};
pub use vp_arith2::{c04, c05, c16};
pub use vp_misc::{c08, c09, c12, c13, c14, c15};
pub use vp_sys::{c17, c19, c20};
pub use vp_text::{c06, c07, c11, c18, selftest};
