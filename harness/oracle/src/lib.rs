//! Reference oracles for the fpdec checks.  Depends on nothing from fpdec.

pub mod big;
pub mod float;
pub mod text;

pub use big::Big;

/// The eight rounding modes, in the order of fpdec's `RoundingMode` enum.
#[derive(Clone, Copy, Debug, PartialEq, Eq, Hash)]
pub enum Mode {
    R05Up,
    Ceiling,
    Down,
    Floor,
    HalfDown,
    HalfEven,
    HalfUp,
    Up,
}

pub const MODES: [Mode; 8] = [
    Mode::R05Up,
    Mode::Ceiling,
    Mode::Down,
    Mode::Floor,
    Mode::HalfDown,
    Mode::HalfEven,
    Mode::HalfUp,
    Mode::Up,
];

impl Mode {
    pub fn from_index(i: u8) -> Mode {
        MODES[(i % 8) as usize]
    }
    pub fn index(self) -> u8 {
        MODES.iter().position(|m| *m == self).unwrap() as u8
    }
    pub fn name(self) -> &'static str {
        match self {
            Mode::R05Up => "Round05Up",
            Mode::Ceiling => "RoundCeiling",
            Mode::Down => "RoundDown",
            Mode::Floor => "RoundFloor",
            Mode::HalfDown => "RoundHalfDown",
            Mode::HalfEven => "RoundHalfEven",
            Mode::HalfUp => "RoundHalfUp",
            Mode::Up => "RoundUp",
        }
    }
}

/// How the discarded fraction compares with one half.
#[derive(Clone, Copy, Debug, PartialEq, Eq)]
pub enum Frac {
    Zero,
    BelowHalf,
    Half,
    AboveHalf,
}

/// Exact rational num/den (den != 0) rounded to an integer under `mode`,
/// written from the *definitions* of the modes: sign s of the value, integer
/// part t of |value| (truncated), comparison of the discarded fraction with
/// one half.  Returns (result, class of the discarded fraction).
pub fn round_exact_cls(num: &Big, den: &Big, mode: Mode) -> (Big, Frac) {
    assert!(!den.is_zero(), "oracle: zero denominator");
    let neg = (num.is_neg() != den.is_neg()) && !num.is_zero();
    let (t, r) = num.abs().divrem_trunc(&den.abs());
    // value = s * (t + r/|den|), 0 <= r < |den|
    let frac = if r.is_zero() {
        Frac::Zero
    } else {
        let twice = r.add(&r);
        match twice.cmp(&den.abs()) {
            core::cmp::Ordering::Less => Frac::BelowHalf,
            core::cmp::Ordering::Equal => Frac::Half,
            core::cmp::Ordering::Greater => Frac::AboveHalf,
        }
    };
    let away = match (mode, frac) {
        (_, Frac::Zero) => false,
        (Mode::Down, _) => false,
        (Mode::Up, _) => true,
        (Mode::Ceiling, _) => !neg,
        (Mode::Floor, _) => neg,
        (Mode::HalfUp, f) => f != Frac::BelowHalf,
        (Mode::HalfDown, f) => f == Frac::AboveHalf,
        (Mode::HalfEven, Frac::Half) => !t.is_even(),
        (Mode::HalfEven, f) => f == Frac::AboveHalf,
        (Mode::R05Up, _) => {
            let d = t.abs_mod_small(10);
            d == 0 || d == 5
        }
    };
    let m = if away { t.add(&Big::one()) } else { t };
    (if neg { m.neg() } else { m }, frac)
}

pub fn round_exact(num: &Big, den: &Big, mode: Mode) -> Big {
    round_exact_cls(num, den, mode).0
}

/// Euclid on magnitudes.
pub fn gcd(a: &Big, b: &Big) -> Big {
    let mut x = a.abs();
    let mut y = b.abs();
    while !y.is_zero() {
        let (_, r) = x.divrem_trunc(&y);
        x = y;
        y = r;
    }
    x
}

/// Strip trailing decimal zeros of coefficient `c` at scale `f` down to
/// scale 0 (zero becomes (0, 0)).
pub fn normalize(c: &Big, f: u32) -> (Big, u32) {
    if c.is_zero() {
        return (Big::ZERO, 0);
    }
    let ten = Big::from_u64(10);
    let mut c = *c;
    let mut f = f;
    while f > 0 {
        let (q, r) = c.divrem_trunc(&ten);
        if !r.is_zero() {
            break;
        }
        c = q;
        f -= 1;
    }
    (c, f)
}

pub const MAX_COEFF: i128 = i128::MAX;

#[cfg(test)]
mod tests {
    use super::*;

    #[test]
    fn big_vs_native() {
        let vals: [i128; 12] = [
            0,
            1,
            -1,
            10,
            -10,
            i64::MAX as i128,
            i64::MIN as i128,
            u64::MAX as i128,
            12345678901234567890123456789,
            -98765432109876543210987654321,
            i128::MAX / 3,
            -(i128::MAX / 7),
        ];
        for &a in &vals {
            for &b in &vals {
                let (ba, bb) = (Big::from_i128(a), Big::from_i128(b));
                if let Some(s) = a.checked_add(b) {
                    assert_eq!(ba.add(&bb).to_i128(), Some(s));
                }
                if let Some(s) = a.checked_sub(b) {
                    assert_eq!(ba.sub(&bb).to_i128(), Some(s));
                }
                if let Some(s) = a.checked_mul(b) {
                    assert_eq!(ba.mul(&bb).to_i128(), Some(s));
                }
                if b != 0 {
                    let (q, r) = ba.divrem_trunc(&bb);
                    assert_eq!(q.to_i128(), Some(a / b));
                    assert_eq!(r.to_i128(), Some(a % b));
                    let (q, r) = ba.divrem_floor(&bb);
                    assert_eq!(q.mul(&bb).add(&r), ba);
                    assert!(r.is_zero() || r.is_neg() == bb.is_neg());
                    assert!(r.abs() < bb.abs());
                }
                assert_eq!(ba.cmp(&bb), a.cmp(&b));
                assert_eq!(ba.to_string(), a.to_string());
                assert_eq!(Big::parse_dec(&a.to_string()), Some(ba));
            }
        }
    }

    #[test]
    fn rounding_table() {
        // (num, den, expected per mode in MODES order)
        let t: [(i64, i64, [i64; 8]); 8] = [
            (25, 10, [2, 3, 2, 2, 2, 2, 3, 3]),
            (-25, 10, [-2, -2, -2, -3, -2, -2, -3, -3]),
            (35, 10, [3, 4, 3, 3, 3, 4, 4, 4]),
            (51, 10, [6, 6, 5, 5, 5, 5, 5, 6]),
            (-51, 10, [-6, -5, -5, -6, -5, -5, -5, -6]),
            (1, 10, [1, 1, 0, 0, 0, 0, 0, 1]),
            (-1, 10, [-1, 0, 0, -1, 0, 0, 0, -1]),
            (30, 10, [3, 3, 3, 3, 3, 3, 3, 3]),
        ];
        for (n, d, exp) in t {
            for (i, m) in MODES.iter().enumerate() {
                let r = round_exact(&Big::from_i64(n), &Big::from_i64(d), *m);
                assert_eq!(r.to_i128(), Some(exp[i] as i128), "{n}/{d} {m:?}");
                let r = round_exact(&Big::from_i64(-n), &Big::from_i64(-d), *m);
                assert_eq!(r.to_i128(), Some(exp[i] as i128), "{n}/{d} {m:?} negden");
            }
        }
    }
}
