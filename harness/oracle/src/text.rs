//! Reference literal parser and reference formatter.

use crate::{round_exact, Big, Mode};

#[derive(Clone, Debug, PartialEq, Eq)]
pub enum RefParse {
    /// Must be Ok with exactly this coefficient and scale.
    Ok { coeff: i128, scale: u8 },
    /// Must be Err (kind Empty iff `empty`).
    Err { empty: bool, why: &'static str },
    /// Zero written with more than 18 fractional digits after applying the
    /// exponent (e.g. "0.000e-20"): the statement can be read either way;
    /// Err or Ok(0 with scale <= 18) are both accepted.
    AmbiguousZero,
}

/// Structure of a literal that matches the grammar
/// `[+|-](digits[.digits*] | .digits)[(e|E)[+|-]digits]`.
#[derive(Clone, Debug)]
pub struct LitParts<'a> {
    pub neg: bool,
    pub int_digits: &'a str,
    pub frac_digits: &'a str,
    pub has_point: bool,
    pub exp_neg: bool,
    pub exp_digits: Option<&'a str>,
}

/// Character-by-character grammar match; `None` = not in the grammar.
pub fn split_literal(s: &str) -> Option<LitParts<'_>> {
    let b = s.as_bytes();
    let mut i = 0usize;
    let mut neg = false;
    if i < b.len() && (b[i] == b'+' || b[i] == b'-') {
        neg = b[i] == b'-';
        i += 1;
    }
    let int_start = i;
    while i < b.len() && b[i].is_ascii_digit() {
        i += 1;
    }
    let int_digits = &s[int_start..i];
    let mut frac_digits = "";
    let mut has_point = false;
    if i < b.len() && b[i] == b'.' {
        has_point = true;
        i += 1;
        let fs = i;
        while i < b.len() && b[i].is_ascii_digit() {
            i += 1;
        }
        frac_digits = &s[fs..i];
    }
    if int_digits.is_empty() && frac_digits.is_empty() {
        return None;
    }
    let mut exp_neg = false;
    let mut exp_digits = None;
    if i < b.len() && (b[i] == b'e' || b[i] == b'E') {
        i += 1;
        if i < b.len() && (b[i] == b'+' || b[i] == b'-') {
            exp_neg = b[i] == b'-';
            i += 1;
        }
        let es = i;
        while i < b.len() && b[i].is_ascii_digit() {
            i += 1;
        }
        if es == i {
            return None;
        }
        exp_digits = Some(&s[es..i]);
    }
    if i != b.len() {
        return None;
    }
    Some(LitParts { neg, int_digits, frac_digits, has_point, exp_neg, exp_digits })
}

/// What `Decimal::from_str(s)` must return according to property C06.
pub fn ref_parse(s: &str) -> RefParse {
    if s.is_empty() {
        return RefParse::Err { empty: true, why: "empty" };
    }
    let p = match split_literal(s) {
        None => return RefParse::Err { empty: false, why: "not in grammar" },
        Some(p) => p,
    };
    // D = all digits as one integer; leading zeros are irrelevant.  Literals
    // may be very long: strip leading zeros and give up (overflow) beyond 60
    // significant digits (10^59 > 2^127 * 10^18 is irrelevant: the
    // coefficient itself must fit in 127 bits).
    let all: String = format!("{}{}", p.int_digits, p.frac_digits);
    let sig = all.trim_start_matches('0');
    let frac_len = p.frac_digits.len() as i128;
    // exponent: may be arbitrarily long; clamp its magnitude (anything
    // beyond +-10^6 behaves the same as 10^6 for the decisions below).
    let mut exp: i128 = 0;
    if let Some(ed) = p.exp_digits {
        let t = ed.trim_start_matches('0');
        if t.len() > 7 {
            exp = 10_000_000;
        } else if !t.is_empty() {
            exp = t.parse::<i128>().unwrap();
        }
        if p.exp_neg {
            exp = -exp;
        }
    }
    let e = exp - frac_len; // value = D * 10^e
    if sig.is_empty() {
        // zero
        let scale = if e < 0 { -e } else { 0 };
        if scale <= 18 {
            return RefParse::Ok { coeff: 0, scale: scale as u8 };
        }
        return RefParse::AmbiguousZero;
    }
    if e < -18 {
        return RefParse::Err { empty: false, why: "more than 18 fractional digits" };
    }
    if sig.len() > 39 {
        return RefParse::Err { empty: false, why: "coefficient overflow" };
    }
    let d = Big::parse_dec(sig).unwrap();
    let (coeff, scale) = if e < 0 {
        (d, (-e) as u8)
    } else {
        if e > 40 {
            return RefParse::Err { empty: false, why: "coefficient overflow" };
        }
        (d.mul(&Big::pow10(e as u32)), 0u8)
    };
    if !coeff.fits_coeff() {
        return RefParse::Err { empty: false, why: "coefficient overflow" };
    }
    let c = coeff.to_i128().unwrap();
    RefParse::Ok { coeff: if p.neg { -c } else { c }, scale }
}

/// Canonical text of coefficient `c` at scale `f`: optional '-', integer part
/// without leading zeros, and iff f > 0 a '.' plus exactly f digits.
pub fn ref_to_string(c: i128, f: u8) -> String {
    let body = ref_body(&Big::from_i128(c), f as usize);
    if c < 0 {
        format!("-{}", body)
    } else {
        body
    }
}

/// digits of |k| at scale f (no sign)
pub fn ref_body(k: &Big, f: usize) -> String {
    let mut digits = k.abs_digits();
    if f == 0 {
        return digits;
    }
    while digits.len() < f + 1 {
        digits.insert(0, '0');
    }
    let cut = digits.len() - f;
    format!("{}.{}", &digits[..cut], &digits[cut..])
}

#[derive(Clone, Copy, Debug, PartialEq, Eq, Hash)]
pub enum Align {
    Default,
    Left,
    Center,
    Right,
}

#[derive(Clone, Copy, Debug, PartialEq, Eq, Hash)]
pub struct Spec {
    pub fill: char,
    pub align: Align,
    pub plus: bool,
    pub zero: bool,
    pub width: Option<usize>,
    pub precision: Option<usize>,
}

/// Model of `Formatter::pad_integral(is_nonnegative, "", body)`.
pub fn pad_integral_model(nonneg: bool, body: &str, spec: &Spec) -> String {
    let sign = if !nonneg {
        "-"
    } else if spec.plus {
        "+"
    } else {
        ""
    };
    let len = sign.chars().count() + body.chars().count();
    let width = match spec.width {
        None => return format!("{sign}{body}"),
        Some(w) => w,
    };
    if len >= width {
        return format!("{sign}{body}");
    }
    let pad = width - len;
    if spec.zero {
        return format!("{sign}{}{body}", "0".repeat(pad));
    }
    let (l, r) = match spec.align {
        Align::Left => (0, pad),
        Align::Right | Align::Default => (pad, 0),
        Align::Center => (pad / 2, (pad + 1) / 2),
    };
    let f: String = core::iter::repeat(spec.fill).take(l).collect();
    let g: String = core::iter::repeat(spec.fill).take(r).collect();
    format!("{f}{sign}{body}{g}")
}

/// What `format!("{:spec}", d)` must print for d = (c, f) under `mode`.
pub fn ref_format(c: i128, f: u8, mode: Mode, spec: &Spec) -> String {
    let p = match spec.precision {
        None => f as usize,
        Some(p) => p.min(18),
    };
    let cb = Big::from_i128(c);
    let k = if p >= f as usize {
        cb.mul(&Big::pow10((p - f as usize) as u32))
    } else {
        round_exact(&cb, &Big::pow10((f as usize - p) as u32), mode)
    };
    let body = ref_body(&k, p);
    pad_integral_model(c >= 0, &body, spec)
}
