//! Exact float decoding and reference conversions between decimals and
//! binary floating point, in `Big` arithmetic.

use crate::{normalize, round_exact, Big, Mode};

#[derive(Clone, Copy, Debug)]
pub struct FloatFmt {
    pub mant_bits: u32, // explicit fraction bits: 52 / 23
    pub exp_bits: u32,  // 11 / 8
}

pub const F64: FloatFmt = FloatFmt { mant_bits: 52, exp_bits: 11 };
pub const F32: FloatFmt = FloatFmt { mant_bits: 23, exp_bits: 8 };

#[derive(Clone, Debug, PartialEq, Eq)]
pub enum Decoded {
    Nan,
    Inf { neg: bool },
    /// value = (-1)^neg * sig * 2^exp   (sig may be 0)
    Finite { neg: bool, sig: u64, exp: i32 },
}

impl FloatFmt {
    pub fn bias(&self) -> i32 {
        (1 << (self.exp_bits - 1)) - 1
    }
    pub fn decode(&self, bits: u64) -> Decoded {
        let neg = (bits >> (self.mant_bits + self.exp_bits)) & 1 == 1;
        let be = ((bits >> self.mant_bits) & ((1u64 << self.exp_bits) - 1)) as i32;
        let frac = bits & ((1u64 << self.mant_bits) - 1);
        let emax = (1i32 << self.exp_bits) - 1;
        if be == emax {
            if frac == 0 {
                Decoded::Inf { neg }
            } else {
                Decoded::Nan
            }
        } else if be == 0 {
            Decoded::Finite { neg, sig: frac, exp: 1 - self.bias() - self.mant_bits as i32 }
        } else {
            Decoded::Finite {
                neg,
                sig: frac | (1u64 << self.mant_bits),
                exp: be - self.bias() - self.mant_bits as i32,
            }
        }
    }

    /// Bit pattern of the float nearest (ties to even) to num/den, for
    /// values whose magnitude lies in the normal range of the format (true
    /// for every Decimal: 1e-18 <= |d| < 1.8e38 or d == 0).  Zero -> +0.0.
    pub fn nearest_bits(&self, num: &Big, den: &Big) -> u64 {
        if num.is_zero() {
            return 0;
        }
        let neg = num.is_neg() != den.is_neg();
        let n = num.abs();
        let d = den.abs();
        // find e with 2^e <= n/d < 2^(e+1)
        let mut e: i32 = n.bits() as i32 - d.bits() as i32;
        // n/d in (2^(e-1), 2^(e+1)); fix up
        let ge = |e: i32| -> bool {
            // n/d >= 2^e ?
            if e >= 0 {
                n >= d.mul(&Big::pow2(e as u32))
            } else {
                n.mul(&Big::pow2((-e) as u32)) >= d
            }
        };
        while !ge(e) {
            e -= 1;
        }
        while ge(e + 1) {
            e += 1;
        }
        assert!(e >= 1 - self.bias(), "nearest_bits: subnormal range not supported");
        // quantum 2^(e - mant_bits); q = round_half_even(n / (d * quantum))
        let qe = e - self.mant_bits as i32;
        let (nn, dd) = if qe >= 0 {
            (n, d.mul(&Big::pow2(qe as u32)))
        } else {
            (n.mul(&Big::pow2((-qe) as u32)), d)
        };
        let q = round_exact(&nn, &dd, Mode::HalfEven);
        let mut sig = q.to_u128().unwrap() as u64;
        let mut e = e;
        if sig == (1u64 << (self.mant_bits + 1)) {
            sig >>= 1;
            e += 1;
        }
        assert!(sig >> self.mant_bits == 1);
        let be = (e + self.bias()) as u64;
        assert!(be < (1u64 << self.exp_bits) - 1, "nearest_bits: overflow to inf");
        let frac = sig & ((1u64 << self.mant_bits) - 1);
        ((neg as u64) << (self.mant_bits + self.exp_bits)) | (be << self.mant_bits) | frac
    }
}

#[derive(Clone, Debug, PartialEq, Eq)]
pub enum RefFromFloat {
    NotANumber,
    Infinite,
    /// exactly this normalised (coefficient, scale)
    Ok { coeff: i128, scale: u8 },
    Overflow,
    /// coefficient is exactly -2^127: Ok(that) or Overflow both accepted
    EdgeMin,
}

/// What `Decimal::try_from(float)` must return (C13).
pub fn ref_from_float(fmt: &FloatFmt, bits: u64) -> RefFromFloat {
    match fmt.decode(bits) {
        Decoded::Nan => RefFromFloat::NotANumber,
        Decoded::Inf { .. } => RefFromFloat::Infinite,
        Decoded::Finite { neg, sig, exp } => {
            if sig == 0 {
                return RefFromFloat::Ok { coeff: 0, scale: 0 };
            }
            let s = Big::from_u64(sig);
            // k = half-even(v * 10^18)
            let k = if exp >= 0 {
                if exp > 200 {
                    return RefFromFloat::Overflow;
                }
                s.mul(&Big::pow2(exp as u32)).mul(&Big::pow10(18))
            } else {
                let e = (-exp) as u32;
                if e > 700 {
                    // |v| < 2^53 * 2^-700: rounds to zero
                    return RefFromFloat::Ok { coeff: 0, scale: 0 };
                }
                // numerator sig*10^18 < 2^113; denominator 2^e up to 2^700
                round_exact(&s.mul(&Big::pow10(18)), &Big::pow2(e), Mode::HalfEven)
            };
            let k = if neg { k.neg() } else { k };
            let (c, f) = normalize(&k, 18);
            match c.to_i128() {
                None => RefFromFloat::Overflow,
                Some(i128::MIN) => RefFromFloat::EdgeMin,
                Some(v) => RefFromFloat::Ok { coeff: v, scale: f as u8 },
            }
        }
    }
}

/// Fast version of `ref_from_float` for f32 bit patterns in plain u128 arithmetic
/// (sig * 10^18 < 2^84).  Used for the exhaustive enumeration of all 2^32 patterns;
/// cross-checked against the big-integer version on a sample of every run.
pub fn ref_from_f32_fast(bits: u32) -> RefFromFloat {
    let neg = bits >> 31 == 1;
    let be = ((bits >> 23) & 0xff) as i32;
    let frac = (bits & 0x7f_ffff) as u128;
    if be == 0xff {
        return if frac == 0 { RefFromFloat::Infinite } else { RefFromFloat::NotANumber };
    }
    let (sig, exp): (u128, i32) = if be == 0 { (frac, -149) } else { (frac | 0x80_0000, be - 150) };
    if sig == 0 {
        return RefFromFloat::Ok { coeff: 0, scale: 0 };
    }
    const P18: u128 = 1_000_000_000_000_000_000;
    let (mut k, mut scale): (u128, u8) = if exp >= 0 {
        // integral value sig * 2^exp; must stay below 2^127 after normalisation (scale 0)
        if exp > 103 {
            // sig >= 1: sig * 2^exp >= 2^104 ... may still fit: decide exactly
            let bitlen = 128 - sig.leading_zeros() as i32 + exp;
            if bitlen > 127 {
                // magnitude >= 2^127: only exactly -2^127 is the edge case
                if neg && sig.count_ones() == 1 && bitlen == 128 {
                    return RefFromFloat::EdgeMin;
                }
                return RefFromFloat::Overflow;
            }
        }
        (sig << exp, 0)
    } else {
        let e = (-exp) as u32;
        let num = sig * P18; // < 2^84
        if e >= 128 {
            (0, 18)
        } else {
            let q = num >> e;
            let r = num & ((1u128 << e) - 1);
            let half = 1u128 << (e - 1);
            let up = r > half || (r == half && q & 1 == 1);
            (q + up as u128, 18)
        }
    };
    if k == 0 {
        return RefFromFloat::Ok { coeff: 0, scale: 0 };
    }
    while scale > 0 && k % 10 == 0 {
        k /= 10;
        scale -= 1;
    }
    if k > i128::MAX as u128 {
        return RefFromFloat::Overflow;
    }
    let c = k as i128;
    RefFromFloat::Ok { coeff: if neg { -c } else { c }, scale }
}
