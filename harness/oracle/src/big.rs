//! `Big`: a small sign-magnitude integer on fixed 12 x u64 limbs (768 bit).
//!
//! Deliberately simple: schoolbook multiplication, shift-subtract division.
//! Structurally unrelated to the 256-bit helpers in fpdec-core.  Arithmetic
//! that would exceed the width panics with the message "oracle overflow";
//! the engine reports that as exit 2 (inconclusive), never as a violation.

use core::cmp::Ordering;
use core::fmt;

pub const LIMBS: usize = 12;

#[derive(Clone, Copy, PartialEq, Eq, Hash)]
pub struct Big {
    neg: bool,
    mag: [u64; LIMBS],
}

fn mag_is_zero(m: &[u64; LIMBS]) -> bool {
    m.iter().all(|&l| l == 0)
}

fn mag_cmp(a: &[u64; LIMBS], b: &[u64; LIMBS]) -> Ordering {
    for i in (0..LIMBS).rev() {
        match a[i].cmp(&b[i]) {
            Ordering::Equal => {}
            o => return o,
        }
    }
    Ordering::Equal
}

fn mag_add(a: &[u64; LIMBS], b: &[u64; LIMBS]) -> [u64; LIMBS] {
    let mut r = [0u64; LIMBS];
    let mut carry = 0u128;
    for i in 0..LIMBS {
        let s = a[i] as u128 + b[i] as u128 + carry;
        r[i] = s as u64;
        carry = s >> 64;
    }
    assert!(carry == 0, "oracle overflow (add)");
    r
}

// a >= b required
fn mag_sub(a: &[u64; LIMBS], b: &[u64; LIMBS]) -> [u64; LIMBS] {
    let mut r = [0u64; LIMBS];
    let mut borrow = 0u64;
    for i in 0..LIMBS {
        let (d1, b1) = a[i].overflowing_sub(b[i]);
        let (d2, b2) = d1.overflowing_sub(borrow);
        r[i] = d2;
        borrow = (b1 || b2) as u64;
    }
    assert!(borrow == 0, "oracle internal error (sub underflow)");
    r
}

fn mag_mul(a: &[u64; LIMBS], b: &[u64; LIMBS]) -> [u64; LIMBS] {
    let mut w = [0u64; 2 * LIMBS + 1];
    for i in 0..LIMBS {
        if a[i] == 0 {
            continue;
        }
        let mut carry = 0u128;
        for j in 0..LIMBS {
            let t = a[i] as u128 * b[j] as u128 + w[i + j] as u128 + carry;
            w[i + j] = t as u64;
            carry = t >> 64;
        }
        w[i + LIMBS] = carry as u64;
    }
    assert!(w[LIMBS..].iter().all(|&l| l == 0), "oracle overflow (mul)");
    let mut r = [0u64; LIMBS];
    r.copy_from_slice(&w[..LIMBS]);
    r
}

fn mag_bits(a: &[u64; LIMBS]) -> u32 {
    for i in (0..LIMBS).rev() {
        if a[i] != 0 {
            return (i as u32) * 64 + (64 - a[i].leading_zeros());
        }
    }
    0
}

fn mag_bit(a: &[u64; LIMBS], i: u32) -> bool {
    (a[(i / 64) as usize] >> (i % 64)) & 1 == 1
}

fn mag_shl1(a: &mut [u64; LIMBS], inbit: bool) {
    let mut c = inbit as u64;
    for l in a.iter_mut() {
        let n = *l >> 63;
        *l = (*l << 1) | c;
        c = n;
    }
    assert!(c == 0, "oracle overflow (shl)");
}

/// (quotient, remainder) of magnitudes, by binary shift-subtract.
fn mag_divrem(a: &[u64; LIMBS], b: &[u64; LIMBS]) -> ([u64; LIMBS], [u64; LIMBS]) {
    assert!(!mag_is_zero(b), "oracle: division by zero");
    let mut q = [0u64; LIMBS];
    let mut r = [0u64; LIMBS];
    let n = mag_bits(a);
    for i in (0..n).rev() {
        mag_shl1(&mut r, mag_bit(a, i));
        if mag_cmp(&r, b) != Ordering::Less {
            r = mag_sub(&r, b);
            q[(i / 64) as usize] |= 1u64 << (i % 64);
        }
    }
    (q, r)
}

impl Big {
    pub const ZERO: Big = Big { neg: false, mag: [0; LIMBS] };

    pub fn from_u128(v: u128) -> Big {
        let mut mag = [0u64; LIMBS];
        mag[0] = v as u64;
        mag[1] = (v >> 64) as u64;
        Big { neg: false, mag }
    }
    pub fn from_i128(v: i128) -> Big {
        let mut b = Big::from_u128(v.unsigned_abs());
        b.neg = v < 0;
        b
    }
    pub fn from_u64(v: u64) -> Big {
        Big::from_u128(v as u128)
    }
    pub fn from_i64(v: i64) -> Big {
        Big::from_i128(v as i128)
    }
    pub fn one() -> Big {
        Big::from_u64(1)
    }
    pub fn is_zero(&self) -> bool {
        mag_is_zero(&self.mag)
    }
    pub fn is_neg(&self) -> bool {
        self.neg
    }
    pub fn signum(&self) -> i32 {
        if self.is_zero() {
            0
        } else if self.neg {
            -1
        } else {
            1
        }
    }
    fn norm(mut self) -> Big {
        if mag_is_zero(&self.mag) {
            self.neg = false;
        }
        self
    }
    pub fn neg(&self) -> Big {
        Big { neg: !self.neg, mag: self.mag }.norm()
    }
    pub fn abs(&self) -> Big {
        Big { neg: false, mag: self.mag }
    }
    pub fn add(&self, o: &Big) -> Big {
        if self.neg == o.neg {
            Big { neg: self.neg, mag: mag_add(&self.mag, &o.mag) }.norm()
        } else {
            match mag_cmp(&self.mag, &o.mag) {
                Ordering::Equal => Big::ZERO,
                Ordering::Greater => {
                    Big { neg: self.neg, mag: mag_sub(&self.mag, &o.mag) }.norm()
                }
                Ordering::Less => Big { neg: o.neg, mag: mag_sub(&o.mag, &self.mag) }.norm(),
            }
        }
    }
    pub fn sub(&self, o: &Big) -> Big {
        self.add(&o.neg())
    }
    pub fn mul(&self, o: &Big) -> Big {
        Big { neg: self.neg != o.neg, mag: mag_mul(&self.mag, &o.mag) }.norm()
    }
    /// Truncated division: quotient rounded towards zero, remainder has the
    /// sign of the dividend (or is zero).  self == q*o + r, |r| < |o|.
    pub fn divrem_trunc(&self, o: &Big) -> (Big, Big) {
        let (q, r) = mag_divrem(&self.mag, &o.mag);
        (
            Big { neg: self.neg != o.neg, mag: q }.norm(),
            Big { neg: self.neg, mag: r }.norm(),
        )
    }
    /// Floor division: remainder has the sign of the divisor (or is zero).
    pub fn divrem_floor(&self, o: &Big) -> (Big, Big) {
        let (q, r) = self.divrem_trunc(o);
        if !r.is_zero() && (r.neg != o.neg) {
            (q.sub(&Big::one()), r.add(o))
        } else {
            (q, r)
        }
    }
    pub fn pow10(k: u32) -> Big {
        let mut r = Big::one();
        let ten = Big::from_u64(10);
        for _ in 0..k {
            r = r.mul(&ten);
        }
        r
    }
    pub fn pow2(k: u32) -> Big {
        assert!((k as usize) < LIMBS * 64, "oracle overflow (pow2)");
        let mut mag = [0u64; LIMBS];
        mag[(k / 64) as usize] = 1u64 << (k % 64);
        Big { neg: false, mag }
    }
    pub fn is_even(&self) -> bool {
        self.mag[0] & 1 == 0
    }
    pub fn bits(&self) -> u32 {
        mag_bits(&self.mag)
    }
    pub fn to_i128(&self) -> Option<i128> {
        if self.mag[2..].iter().any(|&l| l != 0) {
            return None;
        }
        let m = (self.mag[0] as u128) | ((self.mag[1] as u128) << 64);
        if self.neg {
            if m <= (1u128 << 127) {
                Some((m as i128).wrapping_neg())
            } else {
                None
            }
        } else if m <= i128::MAX as u128 {
            Some(m as i128)
        } else {
            None
        }
    }
    pub fn to_u128(&self) -> Option<u128> {
        if self.neg || self.mag[2..].iter().any(|&l| l != 0) {
            return None;
        }
        Some((self.mag[0] as u128) | ((self.mag[1] as u128) << 64))
    }
    /// |self| <= 2^127 - 1 (the documented coefficient range of Decimal)
    pub fn fits_coeff(&self) -> bool {
        matches!(self.to_i128(), Some(v) if v != i128::MIN)
    }
    /// Small non-negative remainder of |self| mod m (m < 2^32).
    pub fn abs_mod_small(&self, m: u32) -> u32 {
        let mut r: u64 = 0;
        for i in (0..LIMBS).rev() {
            let hi = (r << 32) | (self.mag[i] >> 32);
            r = hi % m as u64;
            let lo = (r << 32) | (self.mag[i] & 0xffff_ffff);
            r = lo % m as u64;
        }
        r as u32
    }
    pub fn parse_dec(s: &str) -> Option<Big> {
        let (neg, digits) = match s.as_bytes().first() {
            Some(b'-') => (true, &s[1..]),
            Some(b'+') => (false, &s[1..]),
            _ => (false, s),
        };
        if digits.is_empty() {
            return None;
        }
        let ten = Big::from_u64(10);
        let mut r = Big::ZERO;
        for c in digits.bytes() {
            if !c.is_ascii_digit() {
                return None;
            }
            r = r.mul(&ten).add(&Big::from_u64((c - b'0') as u64));
        }
        if neg {
            r = r.neg();
        }
        Some(r)
    }
    /// Decimal digits of |self| (no sign), "0" for zero.
    pub fn abs_digits(&self) -> String {
        if self.is_zero() {
            return "0".to_string();
        }
        let mut out: Vec<u8> = Vec::new();
        let mut cur = self.mag;
        // repeated short division by 10^9
        const CH: u64 = 1_000_000_000;
        while !mag_is_zero(&cur) {
            let mut r: u64 = 0;
            for i in (0..LIMBS).rev() {
                let hi = (r << 32) | (cur[i] >> 32);
                let qh = hi / CH;
                r = hi % CH;
                let lo = (r << 32) | (cur[i] & 0xffff_ffff);
                let ql = lo / CH;
                r = lo % CH;
                cur[i] = (qh << 32) | ql;
            }
            let mut chunk = r;
            for _ in 0..9 {
                out.push(b'0' + (chunk % 10) as u8);
                chunk /= 10;
            }
        }
        while out.len() > 1 && *out.last().unwrap() == b'0' {
            out.pop();
        }
        out.reverse();
        String::from_utf8(out).unwrap()
    }
}

impl PartialOrd for Big {
    fn partial_cmp(&self, o: &Big) -> Option<Ordering> {
        Some(self.cmp(o))
    }
}
impl Ord for Big {
    fn cmp(&self, o: &Big) -> Ordering {
        match (self.neg, o.neg) {
            (false, true) => Ordering::Greater,
            (true, false) => Ordering::Less,
            (false, false) => mag_cmp(&self.mag, &o.mag),
            (true, true) => mag_cmp(&o.mag, &self.mag),
        }
    }
}

impl fmt::Display for Big {
    fn fmt(&self, f: &mut fmt::Formatter<'_>) -> fmt::Result {
        if self.neg {
            write!(f, "-")?;
        }
        write!(f, "{}", self.abs_digits())
    }
}
impl fmt::Debug for Big {
    fn fmt(&self, f: &mut fmt::Formatter<'_>) -> fmt::Result {
        fmt::Display::fmt(self, f)
    }
}
