//! C20 driver: reads one case per line on stdin, prints one line with the
//! outcome of every operation, separated by '|'.  Built under several
//! profiles / feature sets by the C20 check; the lines must be identical.
//!
//! case line:  cx sx cy sy i n mode s
//!   (s = rest of the line, hex encoded string operand for from_str)

use fpdec::{
    AsIntegerRatio, CheckedAdd, CheckedDiv, CheckedMul, CheckedRem, CheckedSub, Decimal, DivRounded, MulRounded, Quantize, Round, RoundingMode,
};
use std::fmt::Write as _;
use std::io::{BufRead, Write};
use std::panic::{catch_unwind, AssertUnwindSafe};
use std::str::FromStr;

fn mode(i: u8) -> RoundingMode {
    match i % 8 {
        0 => RoundingMode::Round05Up,
        1 => RoundingMode::RoundCeiling,
        2 => RoundingMode::RoundDown,
        3 => RoundingMode::RoundFloor,
        4 => RoundingMode::RoundHalfDown,
        5 => RoundingMode::RoundHalfEven,
        6 => RoundingMode::RoundHalfUp,
        _ => RoundingMode::RoundUp,
    }
}

fn d(out: &mut String, name: &str, f: impl FnOnce() -> Decimal) {
    match catch_unwind(AssertUnwindSafe(f)) {
        Ok(v) => {
            let _ = write!(out, "{name}=V {} {}|", v.coefficient(), v.n_frac_digits());
        }
        Err(_) => {
            let _ = write!(out, "{name}=P|");
        }
    }
}

fn o(out: &mut String, name: &str, f: impl FnOnce() -> Option<Decimal>) {
    match catch_unwind(AssertUnwindSafe(f)) {
        Ok(Some(v)) => {
            let _ = write!(out, "{name}=V {} {}|", v.coefficient(), v.n_frac_digits());
        }
        Ok(None) => {
            let _ = write!(out, "{name}=N|");
        }
        Err(_) => {
            let _ = write!(out, "{name}=P|");
        }
    }
}

fn t(out: &mut String, name: &str, f: impl FnOnce() -> String) {
    match catch_unwind(AssertUnwindSafe(f)) {
        Ok(v) => {
            let _ = write!(out, "{name}=S {v}|");
        }
        Err(_) => {
            let _ = write!(out, "{name}=P|");
        }
    }
}


/// every binary operation with an integer operand of type $t on either side
macro_rules! int_ops {
    ($out:expr, $x:expr, $i:expr, $n:expr, $t:ty, $tn:literal) => {{
        let x: Decimal = $x;
        let i: $t = $i;
        let n: u8 = $n;
        d($out, concat!("add_", $tn), || x + i);
        d($out, concat!($tn, "_add"), || i + x);
        d($out, concat!("sub_", $tn), || x - i);
        d($out, concat!($tn, "_sub"), || i - x);
        d($out, concat!("mul_", $tn), || x * i);
        d($out, concat!($tn, "_mul"), || i * x);
        d($out, concat!("div_", $tn), || x / i);
        d($out, concat!($tn, "_div"), || i / x);
        d($out, concat!("rem_", $tn), || x % i);
        d($out, concat!($tn, "_rem"), || i % x);
        o($out, concat!("cadd_", $tn), || x.checked_add(i));
        o($out, concat!($tn, "_cadd"), || CheckedAdd::checked_add(i, x));
        o($out, concat!("csub_", $tn), || x.checked_sub(i));
        o($out, concat!($tn, "_csub"), || CheckedSub::checked_sub(i, x));
        o($out, concat!("cmul_", $tn), || x.checked_mul(i));
        o($out, concat!($tn, "_cmul"), || CheckedMul::checked_mul(i, x));
        o($out, concat!("cdiv_", $tn), || x.checked_div(i));
        o($out, concat!($tn, "_cdiv"), || CheckedDiv::checked_div(i, x));
        o($out, concat!("crem_", $tn), || x.checked_rem(i));
        o($out, concat!($tn, "_crem"), || CheckedRem::checked_rem(i, x));
        d($out, concat!("divr_", $tn), || x.div_rounded(i, n.min(18)));
        d($out, concat!($tn, "_divr"), || i.div_rounded(x, n.min(18)));
        d($out, concat!("quant_", $tn), || x.quantize(i));
        d($out, concat!($tn, "_quant"), || i.quantize(x));
        d($out, concat!("ref_", $tn), || &x - &i);
        d($out, concat!("assign_", $tn), || {
            let mut t = x;
            t += i;
            t *= i;
            t
        });
        t($out, concat!("cmp_", $tn), || format!("{} {} {:?} {:?}", x == i, i < x, x.partial_cmp(&i), i.partial_cmp(&x)));
    }};
}

fn main() {
    std::panic::set_hook(Box::new(|_| {}));
    let stdin = std::io::stdin();
    let stdout = std::io::stdout();
    let mut outl = stdout.lock();
    for line in stdin.lock().lines() {
        let line = match line {
            Ok(l) => l,
            Err(_) => break,
        };
        let f: Vec<&str> = line.split(' ').collect();
        if f.len() < 8 {
            let _ = writeln!(outl, "BAD");
            let _ = outl.flush();
            continue;
        }
        let cx: i128 = f[0].parse().unwrap();
        let sx: u8 = f[1].parse().unwrap();
        let cy: i128 = f[2].parse().unwrap();
        let sy: u8 = f[3].parse().unwrap();
        let i: i128 = f[4].parse().unwrap();
        let n: i16 = f[5].parse().unwrap();
        let md: u8 = f[6].parse().unwrap();
        let sbytes: Vec<u8> = (0..f[7].len() / 2).map(|k| u8::from_str_radix(&f[7][2 * k..2 * k + 2], 16).unwrap()).collect();
        let s = String::from_utf8_lossy(&sbytes).into_owned();
        RoundingMode::set_default(mode(md));
        let x = Decimal::new_raw(cx, sx.min(18));
        let y = Decimal::new_raw(cy, sy.min(18));
        let i64v = i.clamp(i64::MIN as i128, i64::MAX as i128) as i64;
        let i32v = i.clamp(i32::MIN as i128, i32::MAX as i128) as i32;
        let u8v = i.clamp(0, 255) as u8;
        let nu = n.clamp(0, 255) as u8;
        let ni = n.clamp(-128, 127) as i8;
        let mut out = String::with_capacity(16384);
        d(&mut out, "add", || x + y);
        d(&mut out, "sub", || x - y);
        d(&mut out, "mul", || x * y);
        d(&mut out, "div", || x / y);
        d(&mut out, "rem", || x % y);
        o(&mut out, "cadd", || x.checked_add(y));
        o(&mut out, "csub", || x.checked_sub(y));
        o(&mut out, "cmul", || x.checked_mul(y));
        o(&mut out, "cdiv", || x.checked_div(y));
        o(&mut out, "crem", || x.checked_rem(y));
        d(&mut out, "mulr", || x.mul_rounded(y, nu));
        d(&mut out, "divr", || x.div_rounded(y, nu));
        d(&mut out, "quant", || x.quantize(y));
        d(&mut out, "round", || x.round(ni));
        o(&mut out, "cround", || x.checked_round(ni));
        // integer operands
        d(&mut out, "add_i128", || x + i);
        d(&mut out, "i128_sub", || i - x);
        d(&mut out, "mul_i128", || x * i);
        d(&mut out, "i64_mul", || i64v * x);
        d(&mut out, "mul_i32", || x * i32v);
        d(&mut out, "u8_add", || u8v + x);
        d(&mut out, "div_i64", || x / i64v);
        d(&mut out, "i32_div", || i32v / x);
        d(&mut out, "rem_i64", || x % i64v);
        d(&mut out, "i64_rem", || i64v % x);
        o(&mut out, "cadd_i128", || x.checked_add(i));
        o(&mut out, "cmul_i64", || x.checked_mul(i64v));
        o(&mut out, "cdiv_i32", || x.checked_div(i32v));
        d(&mut out, "divr_i64", || x.div_rounded(i64v, nu));
        d(&mut out, "i32_divr_i32", || i32v.div_rounded(i32v.wrapping_add(7) | 1, nu.min(18)));
        d(&mut out, "quant_i32", || x.quantize(i32v));
        // all integer types, both positions
        let clampi = |lo: i128, hi: i128| i.clamp(lo, hi);
        int_ops!(&mut out, x, clampi(0, u8::MAX as i128) as u8, nu, u8, "u8");
        int_ops!(&mut out, x, clampi(i8::MIN as i128, i8::MAX as i128) as i8, nu, i8, "i8");
        int_ops!(&mut out, x, clampi(0, u16::MAX as i128) as u16, nu, u16, "u16");
        int_ops!(&mut out, x, clampi(i16::MIN as i128, i16::MAX as i128) as i16, nu, i16, "i16");
        int_ops!(&mut out, x, clampi(0, u32::MAX as i128) as u32, nu, u32, "u32");
        int_ops!(&mut out, x, clampi(i32::MIN as i128, i32::MAX as i128) as i32, nu, i32, "i32");
        int_ops!(&mut out, x, clampi(0, u64::MAX as i128) as u64, nu, u64, "u64");
        int_ops!(&mut out, x, clampi(i64::MIN as i128, i64::MAX as i128) as i64, nu, i64, "i64");
        int_ops!(&mut out, x, clampi(-i128::MAX, i128::MAX), nu, i128, "i128");
        // compound assignment
        d(&mut out, "add_assign", || {
            let mut t = x;
            t += y;
            t
        });
        d(&mut out, "sub_assign_i64", || {
            let mut t = x;
            t -= i64v;
            t
        });
        d(&mut out, "mul_assign_i32", || {
            let mut t = x;
            t *= i32v;
            t
        });
        // unary
        d(&mut out, "neg", || -x);
        d(&mut out, "abs", || x.abs());
        d(&mut out, "floor", || x.floor());
        d(&mut out, "ceil", || x.ceil());
        d(&mut out, "trunc", || x.trunc());
        d(&mut out, "fract", || x.fract());
        t(&mut out, "magnitude", || x.magnitude().to_string());
        t(&mut out, "preds", || format!("{} {} {} {}", x.eq_zero(), x.eq_one(), x.is_negative(), x.is_positive()));
        // comparison / hashing
        t(&mut out, "cmp", || format!("{:?} {} {} {:?}", x.cmp(&y), x == y, x < y, x.partial_cmp(&y)));
        t(&mut out, "cmp_i64", || format!("{} {} {:?} {:?}", x == i64v, x < i64v, x.partial_cmp(&i64v), i64v.partial_cmp(&x)));
        t(&mut out, "minmax", || {
            let (a, b) = (x.min(y), x.max(y));
            format!("{} {} {} {}", a.coefficient(), a.n_frac_digits(), b.coefficient(), b.n_frac_digits())
        });
        // the remaining comparison operators and the provided Ord methods (each can be overridden)
        t(&mut out, "cmp_ops", || format!("{} {} {} {} {}", x != y, x <= y, x > y, x >= y, &x >= &y));
        d(&mut out, "clamp_xy", || Decimal::from(i64v).clamp(x, y));
        d(&mut out, "clamp_yx", || Decimal::from(i64v).clamp(y, x));
        d(&mut out, "clamp_self", || x.clamp(y, y));
        t(&mut out, "sort", || {
            let mut v = [x, y, Decimal::from(i32v), x];
            v.sort();
            v.iter().map(|e| format!("{}e-{}", e.coefficient(), e.n_frac_digits())).collect::<Vec<_>>().join(",")
        });
        t(&mut out, "ratio", || format!("{:?} {} {}", x.as_integer_ratio(), x.numerator(), x.denominator()));
        t(&mut out, "hash", || {
            use std::hash::{Hash, Hasher};
            let mut h = std::collections::hash_map::DefaultHasher::new();
            x.hash(&mut h);
            h.finish().to_string()
        });
        // text
        t(&mut out, "to_string", || x.to_string());
        t(&mut out, "debug", || format!("{x:?}"));
        t(&mut out, "fmt_prec", || format!("{:+012.*}", nu.min(40) as usize, x));
        t(&mut out, "fmt_w", || format!("{:*^30}", x));
        t(&mut out, "from_str", || match Decimal::from_str(&s) {
            Ok(v) => format!("Ok {} {}", v.coefficient(), v.n_frac_digits()),
            Err(e) => format!("Err {e:?}"),
        });
        #[cfg(feature = "full")]
        {
        t(&mut out, "serde", || match serde_json::to_string(&x) {
            Ok(j) => match serde_json::from_str::<Decimal>(&j) {
                Ok(v) => format!("{j} {} {}", v.coefficient(), v.n_frac_digits()),
                Err(e) => format!("{j} Err {e}"),
            },
            Err(e) => format!("Err {e}"),
        });
        }
        #[cfg(not(feature = "full"))]
        out.push_str("serde=X|");
        // the num-traits methods (reached through the traits)
        #[cfg(feature = "full")]
        {
            use num_traits::{Num, One, Signed, Zero};
            d(&mut out, "nt_abs_sub", || Signed::abs_sub(&x, &y));
            d(&mut out, "nt_abs_sub_rev", || Signed::abs_sub(&y, &x));
            d(&mut out, "nt_abs", || Signed::abs(&x));
            d(&mut out, "nt_signum", || Signed::signum(&x));
            t(&mut out, "nt_preds", || format!("{} {} {} {}", Zero::is_zero(&x), One::is_one(&x), Signed::is_positive(&x), Signed::is_negative(&x)));
            t(&mut out, "nt_radix", || format!("{:?} {:?}", <Decimal as Num>::from_str_radix(&s, 10).map(|v| (v.coefficient(), v.n_frac_digits())), <Decimal as Num>::from_str_radix(&s, 16).map(|v| (v.coefficient(), v.n_frac_digits()))));
        }
        #[cfg(not(feature = "full"))]
        out.push_str("nt_abs_sub=X|nt_abs_sub_rev=X|nt_abs=X|nt_signum=X|nt_preds=X|nt_radix=X|");
        // floats
        t(&mut out, "to_f64", || format!("{:x}", f64::from(x).to_bits()));
        t(&mut out, "to_f32", || format!("{:x}", f32::from(x).to_bits()));
        t(&mut out, "from_f64", || match Decimal::try_from(f64::from_bits(cy as u64 ^ ((cx as u64) << 32))) {
            Ok(v) => format!("Ok {} {}", v.coefficient(), v.n_frac_digits()),
            Err(e) => format!("Err {e:?}"),
        });
        t(&mut out, "from_f64_of_x", || match Decimal::try_from(f64::from(x)) {
            Ok(v) => format!("Ok {} {}", v.coefficient(), v.n_frac_digits()),
            Err(e) => format!("Err {e:?}"),
        });
        t(&mut out, "from_f32", || match Decimal::try_from(f32::from_bits(cy as u32)) {
            Ok(v) => format!("Ok {} {}", v.coefficient(), v.n_frac_digits()),
            Err(e) => format!("Err {e:?}"),
        });
        // integer conversions
        t(&mut out, "to_ints", || {
            format!(
                "{:?} {:?} {:?} {:?} {:?} {:?}",
                u8::try_from(x),
                i16::try_from(x),
                u32::try_from(x),
                i64::try_from(x),
                i128::try_from(x),
                u128::try_from(x)
            )
        });
        t(&mut out, "from_u128", || match Decimal::try_from(i as u128) {
            Ok(v) => format!("Ok {} {}", v.coefficient(), v.n_frac_digits()),
            Err(e) => format!("Err {e:?}"),
        });
        #[cfg(feature = "full")]
        {
        // rkyv (derived impl, or the manual one with feature packed)
        t(&mut out, "rkyv", || {
            use rkyv::Deserialize;
            let bytes = rkyv::to_bytes::<_, 256>(&x).map_err(|e| e.to_string());
            let bytes = match bytes {
                Ok(b) => b,
                Err(e) => return format!("Err {e}"),
            };
            let by = rkyv::to_bytes::<_, 256>(&y).unwrap();
            match (rkyv::check_archived_root::<Decimal>(&bytes[..]), rkyv::check_archived_root::<Decimal>(&by[..])) {
                (Ok(a), Ok(b)) => {
                    let back: Decimal = a.deserialize(&mut rkyv::Infallible).unwrap();
                    let (a, b) = (*a, *b);
                    format!(
                        "{} {} {} {} {:?} {} {:?} {:?}",
                        back.coefficient(),
                        back.n_frac_digits(),
                        a.coefficient(),
                        a.n_frac_digits(),
                        a.partial_cmp(&b),
                        a == b,
                        x.partial_cmp(&b),
                        a.partial_cmp(&y)
                    )
                }
                _ => "Err check".to_string(),
            }
        });
        }
        #[cfg(not(feature = "full"))]
        out.push_str("rkyv=X|");
        let _ = writeln!(outl, "{out}");
        let _ = outl.flush();
    }
}
