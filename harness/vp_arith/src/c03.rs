//! C03 - division yields the quotient correctly rounded to 18 fractional digits.

use vcore::arith::*;
use vcore::common::*;
use vcore::{assign_forms, forms, with_int};
use engine::{Ctx, Prop, Tier};
use fpdec::{CheckedDiv, Decimal};
use oracle::Big;
use proptest::prelude::*;
use serde::{Deserialize, Serialize};
use std::ops::{Div, DivAssign};

#[derive(Clone, Debug, Hash, PartialEq, Eq, Serialize, Deserialize)]
pub struct Case {
    pub x: D,
    pub y: Rhs,
    pub mode: u8,
}

pub struct C03;

/// exact ties at the 19th digit: x/y * 10^18 = r + 1/2
/// cx * 10^s / cy with s = 18 + q - p; choose cy = 2 * 10^s' * m', cx = (2r+1) * m' * 10^(s'-s)...
fn tie_pair() -> BoxedStrategy<Case> {
    (0u8..=18, 0u8..=18, any::<u64>(), any::<u64>(), 0u32..=63, 0u32..=63, -1i128..=1, any::<bool>(), any::<bool>(), 0u8..8)
        .prop_map(|(p, q, r, m, sh1, sh2, off, n1, n2, mode)| {
            // quotient * 10^18 = cx * 10^(18+q-p) / cy.  Take cy = 2 * g * 10^(18+q-p) / 10^z ... simplest:
            // cy = 2 * g * 10^e, cx = odd * g  =>  cx/cy = odd / (2 * 10^e); times 10^(18+q-p):
            // tie iff 18+q-p == e  (then value = odd/2).  Need cy <= MAX.
            let e = 18 + q as i32 - p as i32; // 0..=36
            let odd = ((r >> sh1) as i128) | 1;
            let g = ((m >> sh2) as i128).max(1);
            let cy = Big::from_i128(2).mul(&Big::from_i128(g)).mul(&Big::pow10(e as u32));
            let (cx, cy) = match cy.to_i128() {
                Some(cy) if cy != i128::MIN => (odd.checked_mul(g).unwrap_or(odd) + off, cy),
                _ => {
                    // g = 1 always fits: 2 * 10^36 < 2^127
                    (odd + off, 2 * 10i128.pow(e as u32))
                }
            };
            Case {
                x: D::new(if n1 { -cx } else { cx }, p),
                y: Rhs::Dec(D::new(if n2 { -cy } else { cy }, q)),
                mode,
            }
        })
        .boxed()
}

/// exact quotients on the narrow and the wide path: cx = k * cy / 10^j
fn exact_pair() -> BoxedStrategy<Case> {
    (0u8..=18, 0u8..=18, any::<u64>(), any::<u64>(), 0u32..=63, 0u32..=63, 0u32..=18, any::<bool>(), any::<bool>(), 0u8..8)
        .prop_map(|(p, q, k, d, sh1, sh2, z, n1, n2, mode)| {
            let d = ((d >> sh2) as i128).max(1);
            let k = (k >> sh1) as i128;
            // cx = k * d * 10^z  (exact multiple with trailing zeros -> normalisation matters)
            let cx = k.checked_mul(d).and_then(|v| v.checked_mul(10i128.pow(z))).unwrap_or(k);
            Case {
                x: D::new(if n1 { -cx } else { cx }, p),
                y: Rhs::Dec(D::new(if n2 { -d } else { d }, q)),
                mode,
            }
        })
        .boxed()
}

/// overflow boundary: rounded quotient * 10^18 at +-(2^127-1) .. +-(2^127+2)
/// (includes floor quotient = MAX with a non-zero remainder)
fn quotient_edge() -> BoxedStrategy<Case> {
    (0u8..=18, 0u8..=18, arb_magnitude(), -3i128..=3, 0u8..=4, any::<bool>(), any::<bool>(), 0u8..8)
        .prop_map(|(p, q, cy, d, frac, n1, n2, mode)| {
            // want cx * 10^s / cy ~ MAX + d + frac/4  =>  cx ~ (MAX + d + frac/4) * cy / 10^s
            let s = 18 + q as i32 - p as i32; // 0..=36
            let cy = cy.max(1);
            let t = Big::from_i128(MAXC).add(&Big::from_i128(d)).mul(&Big::from_u64(4)).add(&Big::from_u64(frac as u64));
            let num = t.mul(&Big::from_i128(cy));
            let den = Big::pow10(s as u32).mul(&Big::from_u64(4));
            let (cx, _) = num.divrem_trunc(&den);
            let cx = cx.to_i128().filter(|v| *v != i128::MIN).unwrap_or(MAXC);
            Case {
                x: D::new(if n1 { -cx } else { cx }, p),
                y: Rhs::Dec(D::new(if n2 { -cy } else { cy }, q)),
                mode,
            }
        })
        .boxed()
}

fn special_pair() -> BoxedStrategy<Case> {
    (arb_d(), 0u8..=18, 0u8..3, 0u8..8)
        .prop_map(|(x, q, kind, mode)| match kind {
            0 => Case { x, y: Rhs::Dec(D::new(10i128.pow(q as u32), q)), mode }, // divisor one
            1 => Case { x: D::new(0, q), y: Rhs::Dec(x), mode },                  // zero dividend
            _ => Case { x, y: Rhs::Dec(D::new(0, q)), mode },                     // zero divisor
        })
        .boxed()
}

impl Prop for C03 {
    type Case = Case;
    fn id(&self) -> &'static str {
        "C03"
    }
    fn rule(&self) -> String {
        "Generated: (dividend, divisor, thread-default rounding mode), divisor/dividend a Decimal or an integer of any of the 9 types; class-based operands, related pairs (same value / same coefficient at another scale), machine-word boundary and unit-like operands, wide-division-path pairs (divisors that make the quotient-digit estimate overshoot), plus derived pairs: \
         exact ties at the 19th digit (and +-1), exact quotients with 0..18 significant fractional digits on the narrow and the wide path, rounded quotient*10^18 at +-(2^127-1)..+-(2^127+2) (incl. floor quotient = MAX with non-zero remainder), divisor one / zero dividend / zero divisor in all representations. \
         Each case runs /, /= and checked_div in all operand forms against the exact rational quotient rounded by the mode definitions and normalised; follow-up cases repeat an operand of the previous case on the same thread. \
         Non-trivial: non-zero discarded part at 18 digits, or wide path, or tie, or normalisation removed a digit. Distinct: hash of (x, y, mode)."
            .into()
    }
    fn assumptions(&self) -> Vec<String> {
        vec![
            "operands |coefficient| <= 2^127-1; i128 integers |i| <= 2^127-1".into(),
            "divisor equal to one: dividend unchanged or normalised are both accepted; zero dividend: any zero".into(),
            "when the rounded quotient*10^18 exceeds the i128 range a signal is expected; returning the correct normalised value instead is tolerated, a wrong value never".into(),
        ]
    }
    fn cases(&self, tier: Tier) -> u64 {
        match tier {
            Tier::Quick => 1 << 20,
            Tier::Thorough => 1 << 25,
        }
    }
    fn strategy(&self, _tier: Tier) -> BoxedStrategy<Case> {
        prop_oneof![
            4 => (arb_d(), arb_d(), 0u8..8).prop_map(|(x, y, mode)| Case { x, y: Rhs::Dec(y), mode }),
            3 => (arb_d(), arb_int(), any::<bool>(), 0u8..8).prop_map(|(x, i, l, mode)| Case { x, y: if l { Rhs::IntL(i) } else { Rhs::IntR(i) }, mode }),
            2 => (arb_related_pair(), 0u8..8).prop_map(|((x, y), mode)| Case { x, y: Rhs::Dec(y), mode }),
            2 => (arb_unit_pair(), 0u8..8).prop_map(|((x, y), mode)| Case { x, y: Rhs::Dec(y), mode }),
            2 => (arb_word_pair(), arb_word_int(), 0u8..3, 0u8..8).prop_map(|((x, y), i, k, mode)| {
                let y = match k { 0 => Rhs::Dec(y), 1 => Rhs::IntR(i), _ => Rhs::IntL(i) };
                Case { x, y, mode }
            }),
            3 => (arb_wide_dec_pair(), 0u8..8).prop_map(|((x, y), mode)| Case { x, y: Rhs::Dec(y), mode }),
            3 => tie_pair(),
            3 => exact_pair(),
            3 => quotient_edge(),
            1 => special_pair(),
        ]
        .boxed()
    }
    fn mandatory_labels(&self, _tier: Tier) -> Vec<&'static str> {
        vec!["tie", "wide", "wide-exact", "rounded", "exact", "normalised", "overflow", "near-boundary", "divisor-one", "zero-dividend", "zero-divisor", "int-left", "int-right", "neg-wide-exact"]
    }
    fn builtin_corpus(&self) -> Vec<Case> {
        vec![
            // D8: exact negative quotient on the wide path
            Case { x: D::new(-1_000_000_000_000_000_000_000_000_000_000, 0), y: Rhs::Dec(D::new(1_000_000_000_000, 0)), mode: 3 },
            Case { x: D::new(-1_000_000_000_000_000_000_000_000_000_000, 0), y: Rhs::Dec(D::new(1_000_000_000_000, 0)), mode: 7 },
            // D13: floor quotient = MAX with non-zero remainder
            Case { x: D::new(153127065114422308558518573344295695155, 18), y: Rhs::Dec(D::new(9, 1)), mode: 5 },
            Case { x: D::new(1, 0), y: Rhs::IntR(I { ty: 0, v: 3 }), mode: 5 },
            Case { x: D::new(17, 5), y: Rhs::Dec(D::new(0, 3)), mode: 5 },
        ]
    }

    fn mix(&self, prev: &Case, cur: &Case) -> Vec<Case> {
        // the current left operand with the previous right operand, and the other way round
        vec![Case { y: prev.y, ..cur.clone() }, Case { x: prev.x, ..cur.clone() }]
    }
    fn check(&self, case: &Case, ctx: &mut Ctx) {
        let md = set_mode(case.mode);
        ctx.label(mode_label(md));
        let x = case.x;
        let xd = x.dec();
        let (xq, yq): (Q, Q) = match case.y {
            Rhs::Dec(y) => (x.into(), y.into()),
            Rhs::IntR(i) => (x.into(), i.into()),
            Rhs::IntL(i) => (i.into(), x.into()),
        };
        let (exp, info) = exp_div(xq, yq, md);
        if yq.is_zero() {
            ctx.label("zero-divisor");
        } else if xq.is_zero() {
            ctx.label("zero-dividend");
        } else if yq.is_one() {
            ctx.label("divisor-one");
        } else {
            if info.tie {
                ctx.label("tie");
                ctx.nontrivial();
            }
            if info.inexact {
                ctx.label("rounded");
                ctx.nontrivial();
            } else {
                ctx.label("exact");
            }
            if info.wide {
                ctx.label("wide");
                ctx.nontrivial();
                if !info.inexact && !info.overflow {
                    ctx.label("wide-exact");
                    if (xq.c < 0) != (yq.c < 0) {
                        ctx.label("neg-wide-exact");
                    }
                }
            }
            if info.overflow {
                ctx.label("overflow");
                ctx.nontrivial();
            }
            if info.near {
                ctx.label("near-boundary");
            }
            if let Exp::Exact(_, s) = exp {
                if s < 18 {
                    ctx.label("normalised");
                    ctx.nontrivial();
                }
            }
        }
        let mut outs: Vec<(&'static str, &'static str, bool, Out)> = Vec::new();
        match case.y {
            Rhs::Dec(y) => {
                ctx.label("dec-dec");
                let yd = y.dec();
                for (f, o) in forms!(Div::div, op, xd, yd) {
                    outs.push(("/", f, false, o));
                }
                for (f, o) in assign_forms!(DivAssign::div_assign, xd, yd) {
                    outs.push(("/=", f, false, o));
                }
                for (f, o) in forms!(CheckedDiv::checked_div, opt, xd, yd) {
                    outs.push(("checked_div", f, true, o));
                }
            }
            Rhs::IntR(i) => {
                ctx.label("int-right");
                with_int!(i, iv => {
                    for (f, o) in forms!(Div::div, op, xd, iv) { outs.push(("/", f, false, o)); }
                    for (f, o) in assign_forms!(DivAssign::div_assign, xd, iv) { outs.push(("/=", f, false, o)); }
                    for (f, o) in forms!(CheckedDiv::checked_div, opt, xd, iv) { outs.push(("checked_div", f, true, o)); }
                });
            }
            Rhs::IntL(i) => {
                ctx.label("int-left");
                with_int!(i, iv => {
                    for (f, o) in forms!(Div::div, op, iv, xd) { outs.push(("/", f, false, o)); }
                    for (f, o) in forms!(CheckedDiv::checked_div, opt, iv, xd) { outs.push(("checked_div", f, true, o)); }
                });
            }
        }
        for (opn, form, checked, out) in outs {
            ctx.sub();
            ctx.note(|| format!("{opn} [{form}] mode={} expected {exp} observed {out}", md.name()));
            if let Err(kind) = judge(&out, &exp, checked) {
                ctx.fail(
                    &format!("C03/{kind}"),
                    format!("{case:?} {opn} [{form}] mode={}: expected {exp}, observed {out}", md.name()),
                );
            }
        }
        let _ = Big::ZERO;
        let _: Option<Decimal> = None;
    }
}
