//! C02 - multiplication is exact up to 18 digits, else correctly rounded.

use vcore::arith::*;
use vcore::common::*;
use vcore::{assign_forms, forms, with_int};
use engine::{Ctx, Prop, Tier};
use fpdec::{CheckedMul, Decimal};
use oracle::Big;
use proptest::prelude::*;
use serde::{Deserialize, Serialize};
use std::ops::{Mul, MulAssign};

#[derive(Clone, Debug, Hash, PartialEq, Eq, Serialize, Deserialize)]
pub struct Case {
    pub x: D,
    pub y: Rhs,
    pub mode: u8,
}

pub struct C02;

/// scales with p + q >= 19
pub fn scales_gt18(p: u8, t: u8) -> (u8, u8) {
    let p = p.clamp(1, 18);
    (p, 19 - p + t % p)
}

/// exact ties at the 19th digit: cx*cy = odd * 5 * 10^(s-1), s = p+q-18 > 0
/// (off != 0: one coefficient moved by +-1, a near-tie)
fn tie_pair() -> BoxedStrategy<Case> {
    (1u8..=18, 0u8..=17, any::<u64>(), any::<u64>(), 0u32..=63, 0u32..=63, 0u8..=20, 0u8..=20, -1i128..=1, any::<bool>(), any::<bool>(), 0u8..8)
        .prop_map(|(p, t, r1, r2, sh1, sh2, e2, e5, off, n1, n2, mode)| {
            let (p, q) = scales_gt18(p, t);
            let s = (p + q - 18) as u32; // 1..=18
            // half unit H = 5*10^(s-1) = 2^(s-1) * 5^s, split between the operands
            let a2 = (e2 as u32).min(s - 1);
            let a5 = (e5 as u32).min(s);
            let fa = 2i128.pow(a2) * 5i128.pow(a5);
            let fb = 2i128.pow(s - 1 - a2) * 5i128.pow(s - a5);
            let o1 = ((r1 >> sh1) as i128) | 1;
            let o2 = ((r2 >> sh2) as i128) | 1;
            let cx = o1.checked_mul(fa).unwrap_or(fa) + off;
            let cy = o2.checked_mul(fb).unwrap_or(fb);
            Case {
                x: D::new(if n1 { -cx } else { cx }, p),
                y: Rhs::Dec(D::new(if n2 { -cy } else { cy }, q)),
                mode,
            }
        })
        .boxed()
}

/// wide products whose rounded result may still fit; results near +-MAX
fn wide_pair() -> BoxedStrategy<Case> {
    (arb_magnitude(), 1u8..=18, 1u8..=18, -2i128..=2, any::<bool>(), any::<bool>(), 0u8..8, 0u32..=60)
        .prop_map(|(cx, p, q, d, n1, n2, mode, extra)| {
            let q = q.max(19u8.saturating_sub(p)).min(18);
            let p = p.max(19u8.saturating_sub(q)).min(18);
            let s = (p + q - 18) as u32;
            let cx = cx.max(3);
            // cy ~ (MAX + d*extra-ish) * 10^s / cx  -> rounded product near MAX
            let target = Big::from_i128(MAXC).add(&Big::from_i128(d));
            let (cy, _) = target.mul(&Big::pow10(s)).divrem_trunc(&Big::from_i128(cx));
            let cy = match cy.to_i128() {
                Some(v) if v != i128::MIN && v > 0 => v >> (extra / 4).min(20),
                _ => MAXC >> (extra.min(100)),
            };
            Case {
                x: D::new(if n1 { -cx } else { cx }, p),
                y: Rhs::Dec(D::new(if n2 { -cy } else { cy }, q)),
                mode,
            }
        })
        .boxed()
}

/// exact wide products: cx*cy = +-k*10^s with the product beyond i128
fn exact_wide() -> BoxedStrategy<Case> {
    (any::<u64>(), any::<u64>(), 10u8..=18, 10u8..=18, any::<bool>(), any::<bool>(), 0u8..8)
        .prop_map(|(u, v, p, q, n1, n2, mode)| {
            let s = (p + q - 18) as u32; // 2..=18
            let sa = s / 2;
            let sb = s - sa;
            let cx = (u as i128 | 1 << 62).checked_mul(10i128.pow(sa + 9)).unwrap_or(u as i128);
            let cy = (v as i128 | 1 << 62).checked_mul(10i128.pow(sb + 9)).unwrap_or(v as i128);
            Case {
                x: D::new(if n1 { -cx } else { cx }, p),
                y: Rhs::Dec(D::new(if n2 { -cy } else { cy }, q)),
                mode,
            }
        })
        .boxed()
}

/// operands equal to zero / one in every representation
fn special_pair() -> BoxedStrategy<Case> {
    (arb_d(), 0u8..=18, any::<bool>(), any::<bool>(), 0u8..8)
        .prop_map(|(x, q, one, swap, mode)| {
            let y = if one { D::new(10i128.pow(q as u32), q) } else { D::new(0, q) };
            if swap {
                Case { x: y, y: Rhs::Dec(x), mode }
            } else {
                Case { x, y: Rhs::Dec(y), mode }
            }
        })
        .boxed()
}

/// integer products at the overflow boundary
fn int_edge() -> BoxedStrategy<Case> {
    (arb_int(), 0u8..=18, -2i128..=2, any::<bool>(), any::<bool>(), 0u8..8)
        .prop_map(|(i, p, d, neg, left, mode)| {
            let cx = if i.v == 0 { MAXC } else { (MAXC / i.v.abs().max(1)).saturating_add(d).min(MAXC) };
            let x = D::new(if neg { -cx } else { cx }, p);
            Case { x, y: if left { Rhs::IntL(i) } else { Rhs::IntR(i) }, mode }
        })
        .boxed()
}

impl Prop for C02 {
    type Case = Case;
    fn id(&self) -> &'static str {
        "C02"
    }
    fn rule(&self) -> String {
        "Generated: (x, y, thread-default rounding mode) with y a Decimal or an integer of any of the 9 types on either side; class-based operands, related pairs (same value / same coefficient at another scale, negation), machine-word boundary and unit-like operands, wide-division-path pairs, plus derived pairs: \
         exact ties at the 19th digit (and tie+-1), wide products (coefficient product beyond i128) with rounded result near +-2^127, exact wide products of both signs, operands equal to zero/one in all representations, integer products at the overflow boundary. \
         Each case runs *, *= and checked_mul in all operand forms against exact big-integer products rounded by the mode definitions; follow-up cases repeat an operand of the previous case on the same thread. \
         Non-trivial: p+q > 18 with a non-zero discarded part, or |product| > 2^127-1, or a tie. Distinct: hash of (x, y, mode)."
            .into()
    }
    fn assumptions(&self) -> Vec<String> {
        vec![
            "operands |coefficient| <= 2^127-1; i128 integers |i| <= 2^127-1".into(),
            "a result equal to exactly -2^127 may be returned or signalled".into(),
            "when an operand equals zero or one only the value of x*y is checked, not its scale (as stated)".into(),
            "checked_mul may return None or the exact product when p+q > 18 or the coefficient product overflows (short-cuts for zero/one)".into(),
        ]
    }
    fn cases(&self, tier: Tier) -> u64 {
        match tier {
            Tier::Quick => 1 << 20,
            Tier::Thorough => 1 << 25,
        }
    }
    fn strategy(&self, _tier: Tier) -> BoxedStrategy<Case> {
        prop_oneof![
            4 => (arb_d(), arb_d(), 0u8..8).prop_map(|(x, y, mode)| Case { x, y: Rhs::Dec(y), mode }),
            2 => (arb_d(), arb_int(), any::<bool>(), 0u8..8).prop_map(|(x, i, l, mode)| Case { x, y: if l { Rhs::IntL(i) } else { Rhs::IntR(i) }, mode }),
            2 => (arb_related_pair(), 0u8..8).prop_map(|((x, y), mode)| Case { x, y: Rhs::Dec(y), mode }),
            2 => (arb_unit_pair(), 0u8..8).prop_map(|((x, y), mode)| Case { x, y: Rhs::Dec(y), mode }),
            2 => (arb_word_pair(), arb_word_int(), 0u8..3, 0u8..8).prop_map(|((x, y), i, k, mode)| {
                let y = match k { 0 => Rhs::Dec(y), 1 => Rhs::IntR(i), _ => Rhs::IntL(i) };
                Case { x, y, mode }
            }),
            2 => (arb_wide_dec_pair(), 0u8..8).prop_map(|((x, y), mode)| Case { x, y: Rhs::Dec(y), mode }),
            3 => tie_pair(),
            3 => wide_pair(),
            2 => exact_wide(),
            1 => special_pair(),
            2 => int_edge(),
        ]
        .boxed()
    }
    fn mandatory_labels(&self, _tier: Tier) -> Vec<&'static str> {
        vec!["tie", "wide", "wide-fits", "rounded", "exact<=18", "overflow", "operand-one", "operand-zero", "int-left", "int-right", "neg-exact-wide"]
    }
    fn builtin_corpus(&self) -> Vec<Case> {
        vec![
            // D8: exact negative wide product under Floor / Up / Round05Up
            Case { x: D::new(-10_000_000_000, 10), y: Rhs::Dec(D::new(10_000_000_000, 10)), mode: 3 },
            Case { x: D::new(-10_000_000_000, 10), y: Rhs::Dec(D::new(10_000_000_000, 10)), mode: 7 },
            Case { x: D::new(-10_000_000_000, 10), y: Rhs::Dec(D::new(10_000_000_000, 10)), mode: 0 },
            Case { x: D::new(MAXC, 0), y: Rhs::IntR(I { ty: 5, v: 2 }), mode: 5 },
            Case { x: D::new(MAXC, 18), y: Rhs::Dec(D::new(10i128.pow(18), 18)), mode: 5 },
        ]
    }

    fn mix(&self, prev: &Case, cur: &Case) -> Vec<Case> {
        // the current left operand with the previous right operand, and the other way round
        vec![Case { y: prev.y, ..cur.clone() }, Case { x: prev.x, ..cur.clone() }]
    }
    fn check(&self, case: &Case, ctx: &mut Ctx) {
        let md = set_mode(case.mode);
        ctx.label(mode_label(md));
        let x = case.x;
        let xd = x.dec();
        let mut outs: Vec<(&'static str, &'static str, bool, Out, Exp)> = Vec::new();
        match case.y {
            Rhs::Dec(y) => {
                ctx.label("dec-dec");
                let (xq, yq): (Q, Q) = (x.into(), y.into());
                let (e, info) = exp_mul(xq, yq, md);
                let (ec, _) = exp_checked_mul(xq, yq);
                if xq.is_one() || yq.is_one() {
                    ctx.label("operand-one");
                }
                if xq.is_zero() || yq.is_zero() {
                    ctx.label("operand-zero");
                }
                let pq = x.s + y.s;
                if pq <= 18 {
                    ctx.label("exact<=18");
                } else if info.inexact {
                    ctx.label("rounded");
                    ctx.nontrivial();
                }
                if info.tie {
                    ctx.label("tie");
                    ctx.nontrivial();
                }
                if info.wide {
                    ctx.label("wide");
                    ctx.nontrivial();
                    if !info.overflow {
                        ctx.label("wide-fits");
                        if !info.inexact && (x.c < 0) != (y.c < 0) && pq > 18 {
                            ctx.label("neg-exact-wide");
                        }
                    }
                }
                if info.overflow {
                    ctx.label("overflow");
                    ctx.nontrivial();
                }
                if info.near {
                    ctx.label("near-boundary");
                }
                let yd = y.dec();
                for (f, o) in forms!(Mul::mul, op, xd, yd) {
                    outs.push(("*", f, false, o, e.clone()));
                }
                for (f, o) in assign_forms!(MulAssign::mul_assign, xd, yd) {
                    outs.push(("*=", f, false, o, e.clone()));
                }
                for (f, o) in forms!(CheckedMul::checked_mul, opt, xd, yd) {
                    outs.push(("checked_mul", f, true, o, ec.clone()));
                }
            }
            Rhs::IntR(i) => {
                ctx.label("int-right");
                let (e, info) = exp_mul_int(x.into(), i.into());
                if info.overflow {
                    ctx.label("overflow");
                    ctx.nontrivial();
                }
                if info.near {
                    ctx.label("near-boundary");
                    ctx.nontrivial();
                }
                with_int!(i, iv => {
                    for (f, o) in forms!(Mul::mul, op, xd, iv) { outs.push(("*", f, false, o, e.clone())); }
                    for (f, o) in assign_forms!(MulAssign::mul_assign, xd, iv) { outs.push(("*=", f, false, o, e.clone())); }
                    for (f, o) in forms!(CheckedMul::checked_mul, opt, xd, iv) { outs.push(("checked_mul", f, true, o, e.clone())); }
                });
            }
            Rhs::IntL(i) => {
                ctx.label("int-left");
                let (e, info) = exp_mul_int(x.into(), i.into());
                if info.overflow {
                    ctx.label("overflow");
                    ctx.nontrivial();
                }
                if info.near {
                    ctx.label("near-boundary");
                    ctx.nontrivial();
                }
                with_int!(i, iv => {
                    for (f, o) in forms!(Mul::mul, op, iv, xd) { outs.push(("*", f, false, o, e.clone())); }
                    for (f, o) in forms!(CheckedMul::checked_mul, opt, iv, xd) { outs.push(("checked_mul", f, true, o, e.clone())); }
                });
            }
        }
        for (opn, form, checked, out, exp) in outs {
            ctx.sub();
            ctx.note(|| format!("{opn} [{form}] mode={} expected {exp} observed {out}", md.name()));
            if let Err(kind) = judge(&out, &exp, checked) {
                ctx.fail(
                    &format!("C02/{kind}"),
                    format!("{case:?} {opn} [{form}] mode={}: expected {exp}, observed {out}", md.name()),
                );
            }
        }
        let _ = Big::ZERO;
        let _: Option<Decimal> = None;
    }
}
