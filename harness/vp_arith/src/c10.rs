//! C10 - remainder satisfies the truncated-division identity exactly.

use vcore::arith::*;
use vcore::common::*;
use vcore::{assign_forms, forms, with_int};
use engine::{Ctx, Prop, Tier};
use fpdec::{CheckedRem, Decimal};
use oracle::Big;
use proptest::prelude::*;
use serde::{Deserialize, Serialize};
use std::ops::{Rem, RemAssign};

#[derive(Clone, Debug, Hash, PartialEq, Eq, Serialize, Deserialize)]
pub struct Case {
    pub x: D,
    pub y: Rhs,
}

pub struct C10;

/// dividend that cannot be re-expressed with the divisor's scale (stepwise path)
fn stepwise_pair() -> BoxedStrategy<Case> {
    (0u8..=17, 1u8..=18, arb_magnitude(), arb_magnitude(), any::<bool>(), any::<bool>(), 0u8..4)
        .prop_map(|(p, k, cx, cy, n1, n2, kind)| {
            let k = k.min(18 - p);
            let q = p + k;
            // |cx| * 10^k > MAX
            let lim = MAXC / 10i128.pow(k as u32);
            let cx = if cx <= lim { lim + 1 + cx % (MAXC - lim) } else { cx };
            let cy = match kind {
                0 => cy.max(1),                         // anything
                1 => (MAXC / 10 + 1 + cy % 1000).min(MAXC), // divisor above 2^127/10: rem*10 overflows
                2 => (cy % 1000).max(1),                // small divisor: stepwise succeeds
                _ => (cy >> 40).max(1),
            };
            Case {
                x: D::new(if n1 { -cx } else { cx }, p),
                y: Rhs::Dec(D::new(if n2 { -cy } else { cy }, q)),
            }
        })
        .boxed()
}

/// divisor * 10^k overflows (p > q): result is the dividend
fn divisor_overflow_pair() -> BoxedStrategy<Case> {
    (1u8..=18, 1u8..=18, arb_coeff(), arb_magnitude(), any::<bool>())
        .prop_map(|(p, k, cx, cy, n2)| {
            let k = k.min(p);
            let q = p - k;
            let lim = MAXC / 10i128.pow(k as u32);
            let cy = if cy <= lim { lim + 1 + cy % (MAXC - lim) } else { cy };
            Case { x: D::new(cx, p), y: Rhs::Dec(D::new(if n2 { -cy } else { cy }, q)) }
        })
        .boxed()
}

/// exact multiples and near multiples: x = k*y + e at the common scale
fn multiple_pair() -> BoxedStrategy<Case> {
    (0u8..=18, 0u8..=18, any::<u64>(), any::<u64>(), 0u32..=63, 0u32..=63, -2i128..=2, any::<bool>(), any::<bool>())
        .prop_map(|(p, q, k, cy, s1, s2, e, n1, n2)| {
            let m = p.max(q);
            let cy = ((cy >> s2) as i128).max(1);
            let k = (k >> s1) as i128;
            // aligned divisor Y = cy * 10^(m-q); aligned dividend X = k*Y + e must be a multiple of 10^(m-p)
            let ya = Big::from_i128(cy).mul(&Big::pow10((m - q) as u32));
            let xa = ya.mul(&Big::from_i128(k)).add(&Big::from_i128(e).mul(&Big::pow10((m - p) as u32)));
            let (cx, _) = xa.divrem_trunc(&Big::pow10((m - p) as u32));
            let cx = cx.to_i128().filter(|v| *v != i128::MIN).unwrap_or(k);
            Case {
                x: D::new(if n1 { -cx } else { cx }, p),
                y: Rhs::Dec(D::new(if n2 { -cy } else { cy }, q)),
            }
        })
        .boxed()
}

fn special_pair() -> BoxedStrategy<Case> {
    (arb_d(), 0u8..=18, 0u8..3)
        .prop_map(|(x, q, kind)| match kind {
            0 => Case { x, y: Rhs::Dec(D::new(10i128.pow(q as u32), q)) },
            1 => Case { x: D::new(0, q), y: Rhs::Dec(x) },
            _ => Case { x, y: Rhs::Dec(D::new(0, q)) },
        })
        .boxed()
}

impl Prop for C10 {
    type Case = Case;
    fn id(&self) -> &'static str {
        "C10"
    }
    fn rule(&self) -> String {
        "Generated: (dividend, divisor) with the divisor a Decimal or an integer of any of the 9 types on either side; class-based operands, related pairs, machine-word boundary and unit-like operands plus derived pairs: dividends that cannot be re-expressed with the divisor's scale within i128 (stepwise path) incl. divisors above 2^127/10, \
         divisors whose alignment overflows, exact multiples / near multiples (x = k*y + e), |x| < |y|, divisor one / zero dividend / zero divisor in all representations. \
         Each case runs %, %= and checked_rem in all operand forms; follow-up cases repeat an operand of the previous case on the same thread. Oracle: r = X - trunc(X/Y)*Y on the aligned big integers, re-verified as a validity predicate (x = y*t + r, t integer, |r| < |y|, sign of x). \
         Non-trivial: scales differ or stepwise path. Distinct: hash of (x, y)."
            .into()
    }
    fn assumptions(&self) -> Vec<String> {
        vec![
            "operands |coefficient| <= 2^127-1; i128 integers |i| <= 2^127-1".into(),
            "an overflow signal is accepted only when the dividend has fewer fractional digits than the divisor and its re-expression exceeds i128 (as stated); then the exact value or the signal".into(),
            "the remainder may be returned with any number of fractional digits <= max(p, q) that represents it exactly".into(),
        ]
    }
    fn cases(&self, tier: Tier) -> u64 {
        match tier {
            Tier::Quick => 1 << 20,
            Tier::Thorough => 1 << 25,
        }
    }
    fn strategy(&self, _tier: Tier) -> BoxedStrategy<Case> {
        prop_oneof![
            4 => (arb_d(), arb_d()).prop_map(|(x, y)| Case { x, y: Rhs::Dec(y) }),
            3 => (arb_d(), arb_int(), any::<bool>()).prop_map(|(x, i, l)| Case { x, y: if l { Rhs::IntL(i) } else { Rhs::IntR(i) } }),
            2 => arb_related_pair().prop_map(|(x, y)| Case { x, y: Rhs::Dec(y) }),
            2 => arb_unit_pair().prop_map(|(x, y)| Case { x, y: Rhs::Dec(y) }),
            2 => (arb_word_pair(), arb_word_int(), 0u8..3).prop_map(|((x, y), i, k)| {
                let y = match k { 0 => Rhs::Dec(y), 1 => Rhs::IntR(i), _ => Rhs::IntL(i) };
                Case { x, y }
            }),
            3 => stepwise_pair(),
            2 => divisor_overflow_pair(),
            3 => multiple_pair(),
            1 => special_pair(),
        ]
        .boxed()
    }
    fn mandatory_labels(&self, _tier: Tier) -> Vec<&'static str> {
        vec!["stepwise", "stepwise-signal", "stepwise-value", "divisor-align-overflow", "exact-multiple", "scale-diff", "divisor-one", "zero-divisor", "zero-dividend", "int-left", "int-right", "nonzero-rem"]
    }
    fn builtin_corpus(&self) -> Vec<Case> {
        vec![
            Case { x: D::new(MAXC, 0), y: Rhs::Dec(D::new(3, 18)) },
            Case { x: D::new(MAXC, 0), y: Rhs::Dec(D::new(MAXC / 10 + 7, 1)) },
            Case { x: D::new(-7, 1), y: Rhs::IntR(I { ty: 1, v: -2 }) },
            Case { x: D::new(17294738475, 5), y: Rhs::IntR(I { ty: 7, v: 1 }) },
            Case { x: D::new(100000, 5), y: Rhs::IntL(I { ty: 5, v: 17 }) },
        ]
    }

    fn mix(&self, prev: &Case, cur: &Case) -> Vec<Case> {
        // the current left operand with the previous right operand, and the other way round
        vec![Case { y: prev.y, ..cur.clone() }, Case { x: prev.x, ..cur.clone() }]
    }
    fn check(&self, case: &Case, ctx: &mut Ctx) {
        let _ambient = ambient_mode(case, ctx);
        let x = case.x;
        let xd = x.dec();
        let (xq, yq): (Q, Q) = match case.y {
            Rhs::Dec(y) => (x.into(), y.into()),
            Rhs::IntR(i) => (x.into(), i.into()),
            Rhs::IntL(i) => (i.into(), x.into()),
        };
        let (exp, _info, stepwise) = exp_rem(xq, yq);
        if yq.is_zero() {
            ctx.label("zero-divisor");
        } else {
            if xq.is_zero() {
                ctx.label("zero-dividend");
            }
            if yq.is_one() {
                ctx.label("divisor-one");
            }
            if xq.s != yq.s {
                ctx.label("scale-diff");
                ctx.nontrivial();
            }
            if stepwise {
                ctx.label("stepwise");
                ctx.nontrivial();
            }
            let m = xq.s.max(yq.s);
            if xq.s > yq.s && !in_i128(&yq.big().mul(&Big::pow10((m - yq.s) as u32))) {
                ctx.label("divisor-align-overflow");
            }
            if let Exp::Value { num, .. } | Exp::EitherValue { num, .. } = &exp {
                if num.is_zero() {
                    if !xq.is_zero() {
                        ctx.label("exact-multiple");
                    }
                } else {
                    ctx.label("nonzero-rem");
                }
                // validity predicate (independent re-check of the oracle value)
                let xa = xq.big().mul(&Big::pow10((m - xq.s) as u32));
                let ya = yq.big().mul(&Big::pow10((m - yq.s) as u32));
                let (t, rr) = xa.sub(num).divrem_trunc(&ya);
                assert!(rr.is_zero() && num.abs() < ya.abs() && (num.is_zero() || num.is_neg() == xa.is_neg()), "oracle self-check failed: t={t}");
            }
        }
        let mut outs: Vec<(&'static str, &'static str, bool, Out)> = Vec::new();
        match case.y {
            Rhs::Dec(y) => {
                ctx.label("dec-dec");
                let yd = y.dec();
                for (f, o) in forms!(Rem::rem, op, xd, yd) {
                    outs.push(("%", f, false, o));
                }
                for (f, o) in assign_forms!(RemAssign::rem_assign, xd, yd) {
                    outs.push(("%=", f, false, o));
                }
                for (f, o) in forms!(CheckedRem::checked_rem, opt, xd, yd) {
                    outs.push(("checked_rem", f, true, o));
                }
            }
            Rhs::IntR(i) => {
                ctx.label("int-right");
                with_int!(i, iv => {
                    for (f, o) in forms!(Rem::rem, op, xd, iv) { outs.push(("%", f, false, o)); }
                    for (f, o) in assign_forms!(RemAssign::rem_assign, xd, iv) { outs.push(("%=", f, false, o)); }
                    for (f, o) in forms!(CheckedRem::checked_rem, opt, xd, iv) { outs.push(("checked_rem", f, true, o)); }
                });
            }
            Rhs::IntL(i) => {
                ctx.label("int-left");
                with_int!(i, iv => {
                    for (f, o) in forms!(Rem::rem, op, iv, xd) { outs.push(("%", f, false, o)); }
                    for (f, o) in forms!(CheckedRem::checked_rem, opt, iv, xd) { outs.push(("checked_rem", f, true, o)); }
                });
            }
        }
        let mut first = true;
        for (opn, form, checked, out) in outs {
            ctx.sub();
            if stepwise && first {
                first = false;
                match out {
                    Out::Val(..) => ctx.label("stepwise-value"),
                    _ => ctx.label("stepwise-signal"),
                }
            }
            ctx.note(|| format!("{opn} [{form}] expected {exp} observed {out}"));
            if let Err(kind) = judge(&out, &exp, checked) {
                ctx.fail(&format!("C10/{kind}"), format!("{case:?} {opn} [{form}]: expected {exp}, observed {out}"));
            }
        }
        let _: Option<Decimal> = None;
    }
}
