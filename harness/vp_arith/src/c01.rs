//! C01 - addition and subtraction are exact or signal overflow.

use vcore::common::*;
use vcore::{assign_forms, forms, with_int};
use engine::{Ctx, Prop, Tier};
use fpdec::{CheckedAdd, CheckedSub, Decimal};
use oracle::Big;
use proptest::prelude::*;
use serde::{Deserialize, Serialize};
use std::ops::{Add, AddAssign, Sub, SubAssign};

#[derive(Clone, Debug, Hash, PartialEq, Eq, Serialize, Deserialize)]
pub struct Case {
    pub x: D,
    pub y: Rhs,
}

pub struct C01;

/// derived pairs: the aligned sum/difference lands on or next to +-2^127
fn boundary_pair() -> BoxedStrategy<Case> {
    (0u8..=18, 0u8..=18, -3i128..=3, any::<bool>(), any::<u128>(), any::<bool>(), 0u32..=127)
        .prop_map(|(p, q, delta, neg, raw, via_sub, bits)| {
            // target T at the common scale M
            let m = p.max(q);
            let t = Big::from_i128(MAXC).add(&Big::from_i128(delta)); // MAX-3 ..= MAX+3
            let t = if neg { t.neg() } else { t };
            // the coarser operand is chosen freely (same sign as T, aligned
            // magnitude <= |T|), the finer one is T -/+ aligned(coarse)
            let k = (m - p.min(q)) as u32;
            let lim = MAXC / 10i128.pow(k);
            let mag = if bits == 0 { 0 } else { { let v = (raw >> (128 - bits)) as i128 & MAXC; if v > lim { v % lim } else { v } } };
            let coarse = if neg { -mag } else { mag };
            let aligned = Big::from_i128(coarse).mul(&Big::pow10(k));
            // x is always the left operand. If x is the finer one:
            //   add: x = T - Y ; sub: x = T + Y   (y coarse)
            // else y is finer:
            //   add: y = T - X ; sub: y = X - T
            let (x, y) = if p >= q {
                let yv = if via_sub { -coarse } else { coarse };
                // X + (+-)Y = T  with Y = aligned(yv) ; for sub: X - Y = T
                let xb = t.sub(&aligned);
                match xb.to_i128() {
                    Some(xc) if xc != i128::MIN => (D::new(xc, p), D::new(yv, q)),
                    _ => (D::new(if neg { -MAXC } else { MAXC }, p), D::new(yv, q)),
                }
            } else {
                let yb = if via_sub { aligned.sub(&t) } else { t.sub(&aligned) };
                match yb.to_i128() {
                    Some(yc) if yc != i128::MIN => (D::new(coarse, p), D::new(yc, q)),
                    _ => (D::new(coarse, p), D::new(if neg { -MAXC } else { MAXC }, q)),
                }
            };
            Case { x, y: Rhs::Dec(y) }
        })
        .boxed()
}

/// only the re-scaled operand overflows while the exact sum would fit
fn rescale_overflow_pair() -> BoxedStrategy<Case> {
    (0u8..=17, 1u8..=18, -3i128..=3, any::<bool>(), any::<bool>(), 0i128..=1000)
        .prop_map(|(p, k, delta, neg, swap, small)| {
            let k = k.min(18 - p);
            let q = p + k;
            let edge = MAXC / 10i128.pow(k as u32) + delta;
            let cx = if neg { -edge } else { edge };
            // the other operand has the opposite sign and is large at scale q
            let cy = if neg { MAXC - small } else { -(MAXC - small) };
            if swap {
                Case { x: D::new(cy, q), y: Rhs::Dec(D::new(cx, p)) }
            } else {
                Case { x: D::new(cx, p), y: Rhs::Dec(D::new(cy, q)) }
            }
        })
        .boxed()
}

/// integer operand whose scaling by 10^p is at the edge
fn int_edge() -> BoxedStrategy<Case> {
    (arb_d(), arb_int(), any::<bool>(), -2i128..=2)
        .prop_map(|(x, i, left, d)| {
            // move x's coefficient so that x +- i*10^p is near the boundary
            let al = Big::from_i128(i.v).mul(&Big::pow10(x.s as u32));
            let t = Big::from_i128(MAXC).add(&Big::from_i128(d));
            let t = if i.v >= 0 { t } else { t.neg() };
            let cx = t.sub(&al).to_i128().filter(|v| *v != i128::MIN).unwrap_or(x.c);
            let x = D::new(cx, x.s);
            Case { x, y: if left { Rhs::IntL(i) } else { Rhs::IntR(i) } }
        })
        .boxed()
}

impl Prop for C01 {
    type Case = Case;
    fn id(&self) -> &'static str {
        "C01"
    }
    fn rule(&self) -> String {
        "Generated: pairs (Decimal representation, Decimal or primitive integer of any of the 9 types on either side) from \
         class-based generators (small, uniform bit length, 10^k+-d, 2^k+-d, top of range, MAX/10^k+-d, trailing zeros, 2^a5^b, zero; scales 0..=18) \
         plus related pairs (same value at another scale, negation, neighbours, power-of-ten multiples), machine-word boundary pairs, unit-like operands (+-m*10^z, m mostly 1), derived pairs whose aligned sum/difference lands within 3 of +-2^127, pairs where only the re-scaled operand overflows, and integer operands at the edge. \
         Each case runs +, -, checked_add, checked_sub in all by-value/by-reference forms and += / -=, compared with exact big-integer arithmetic; follow-up cases repeat an operand of the previous case on the same thread. \
         Non-trivial: scales differ, or |exact result| >= 2^120, or an overflow signal is expected. Distinct: hash of (x, y)."
            .into()
    }
    fn assumptions(&self) -> Vec<String> {
        vec![
            "operands restricted to |coefficient| <= 2^127-1 and i128 integers to |i| <= 2^127-1 (the property's quantifier)".into(),
            "an aligned operand or result equal to exactly -2^127 may either be returned or signalled".into(),
            "harness built with overflow-checks on (dev-profile semantics); profile independence is C20".into(),
        ]
    }
    fn cases(&self, tier: Tier) -> u64 {
        match tier {
            Tier::Quick => 1 << 20,
            Tier::Thorough => 1 << 25,
        }
    }
    fn strategy(&self, _tier: Tier) -> BoxedStrategy<Case> {
        prop_oneof![
            4 => (arb_d(), arb_d()).prop_map(|(x, y)| Case { x, y: Rhs::Dec(y) }),
            2 => (arb_d(), arb_int_full()).prop_map(|(x, i)| Case { x, y: Rhs::IntR(i) }),
            2 => (arb_d(), arb_int_full()).prop_map(|(x, i)| Case { x, y: Rhs::IntL(i) }),
            2 => arb_related_pair().prop_map(|(x, y)| Case { x, y: Rhs::Dec(y) }),
            2 => arb_unit_pair().prop_map(|(x, y)| Case { x, y: Rhs::Dec(y) }),
            2 => (arb_word_pair(), arb_word_int(), 0u8..3).prop_map(|((x, y), i, k)| {
                let y = match k { 0 => Rhs::Dec(y), 1 => Rhs::IntR(i), _ => Rhs::IntL(i) };
                Case { x, y }
            }),
            3 => boundary_pair(),
            2 => rescale_overflow_pair(),
            2 => int_edge(),
        ]
        .boxed()
    }
    fn mandatory_labels(&self, _tier: Tier) -> Vec<&'static str> {
        vec!["overflow-operand", "overflow-result", "near-boundary", "int-left", "int-right", "dec-dec", "scale-diff"]
    }
    fn builtin_corpus(&self) -> Vec<Case> {
        let d = |c, s| D::new(c, s);
        vec![
            Case { x: d(MAXC, 0), y: Rhs::Dec(d(1, 0)) },
            Case { x: d(-MAXC, 0), y: Rhs::Dec(d(-1, 0)) },
            Case { x: d(-MAXC, 0), y: Rhs::Dec(d(1, 0)) },
            Case { x: d(MAXC - 19999, 4), y: Rhs::Dec(d(2, 0)) },
            Case { x: d(0, 7), y: Rhs::Dec(d(0, 0)) },
            Case { x: d(MAXC, 18), y: Rhs::IntR(I { ty: 0, v: 1 }) },
            Case { x: d(MAXC, 18), y: Rhs::IntL(I { ty: 8, v: -MAXC }) },
            Case { x: d(17014118346046923173168730371588410572, 1), y: Rhs::Dec(d(-MAXC, 2)) },
        ]
    }

    fn mix(&self, prev: &Case, cur: &Case) -> Vec<Case> {
        // the current left operand with the previous right operand, and the other way round
        vec![Case { y: prev.y, ..cur.clone() }, Case { x: prev.x, ..cur.clone() }]
    }
    fn check(&self, case: &Case, ctx: &mut Ctx) {
        let _ambient = ambient_mode(case, ctx);
        let x = case.x;
        let (l, r, lp, rq) = match case.y {
            Rhs::Dec(y) => (x.big(), y.big(), x.s, y.s),
            Rhs::IntR(i) => (x.big(), Big::from_i128(i.v), x.s, 0),
            Rhs::IntL(i) => (Big::from_i128(i.v), x.big(), 0, x.s),
        };
        match case.y {
            Rhs::Dec(_) => ctx.label("dec-dec"),
            Rhs::IntR(_) => ctx.label("int-right"),
            Rhs::IntL(_) => ctx.label("int-left"),
        }
        let m = lp.max(rq);
        let la = l.mul(&Big::pow10((m - lp) as u32));
        let ra = r.mul(&Big::pow10((m - rq) as u32));
        if lp != rq {
            ctx.label("scale-diff");
            ctx.nontrivial();
        } else {
            ctx.label("scale-eq");
        }
        for sub in [false, true] {
            let s = if sub { la.sub(&ra) } else { la.add(&ra) };
            let exp = if !in_i128(&la) || !in_i128(&ra) {
                ctx.label("overflow-operand");
                ctx.nontrivial();
                Exp::Signal
            } else if !in_i128(&s) {
                ctx.label("overflow-result");
                ctx.nontrivial();
                Exp::Signal
            } else if is_min(&la) || is_min(&ra) || is_min(&s) {
                ctx.label("edge-min");
                Exp::Either(s.to_i128().unwrap(), m)
            } else {
                Exp::Exact(s.to_i128().unwrap(), m)
            };
            if near_edge(&s) {
                ctx.label("near-boundary");
            }
            if s.bits() >= 120 {
                ctx.nontrivial();
            }
            let xd = x.dec();
            let mut outs: Vec<(&'static str, bool, Out)> = Vec::new();
            let mut push = |v: Vec<(&'static str, Out)>, checked: bool| {
                for (n, o) in v {
                    outs.push((n, checked, o));
                }
            };
            match (case.y, sub) {
                (Rhs::Dec(y), false) => {
                    let yd = y.dec();
                    push(forms!(Add::add, op, xd, yd), false);
                    push(assign_forms!(AddAssign::add_assign, xd, yd), false);
                    push(forms!(CheckedAdd::checked_add, opt, xd, yd), true);
                }
                (Rhs::Dec(y), true) => {
                    let yd = y.dec();
                    push(forms!(Sub::sub, op, xd, yd), false);
                    push(assign_forms!(SubAssign::sub_assign, xd, yd), false);
                    push(forms!(CheckedSub::checked_sub, opt, xd, yd), true);
                }
                (Rhs::IntR(i), false) => with_int!(i, iv => {
                    push(forms!(Add::add, op, xd, iv), false);
                    push(assign_forms!(AddAssign::add_assign, xd, iv), false);
                    push(forms!(CheckedAdd::checked_add, opt, xd, iv), true);
                }),
                (Rhs::IntR(i), true) => with_int!(i, iv => {
                    push(forms!(Sub::sub, op, xd, iv), false);
                    push(assign_forms!(SubAssign::sub_assign, xd, iv), false);
                    push(forms!(CheckedSub::checked_sub, opt, xd, iv), true);
                }),
                (Rhs::IntL(i), false) => with_int!(i, iv => {
                    push(forms!(Add::add, op, iv, xd), false);
                    push(forms!(CheckedAdd::checked_add, opt, iv, xd), true);
                }),
                (Rhs::IntL(i), true) => with_int!(i, iv => {
                    push(forms!(Sub::sub, op, iv, xd), false);
                    push(forms!(CheckedSub::checked_sub, opt, iv, xd), true);
                }),
            }
            let opname = if sub { "-" } else { "+" };
            for (form, checked, out) in outs {
                ctx.sub();
                ctx.note(|| format!("{}{} [{form}] expected {exp} observed {out}", if checked { "checked " } else { "" }, opname));
                if let Err(kind) = judge(&out, &exp, checked) {
                    ctx.fail(
                        &format!("C01/{kind}"),
                        format!(
                            "{:?} {}{} [{form}]: expected {exp}, observed {out}",
                            case,
                            if checked { "checked " } else { "" },
                            opname
                        ),
                    );
                }
            }
        }
    }
}
