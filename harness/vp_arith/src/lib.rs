//! vp_arith: part of the fpdec property checks (split into several crates so that they build in parallel).

pub mod c01;
pub mod c02;
pub mod c03;
pub mod c10;

/// Run the check `id` if it lives in this crate (never returns then).
pub fn dispatch(id: &str, opts: &engine::Opts) {
    match id {
        "C01" => engine::run_prop(c01::C01, opts),
        "C02" => engine::run_prop(c02::C02, opts),
        "C03" => engine::run_prop(c03::C03, opts),
        "C10" => engine::run_prop(c10::C10, opts),
        _ => {}
    }
}
