#![no_main]
//! C01-C05, C10: arithmetic against the exact oracle, operands decoded from bytes.
use libfuzzer_sys::fuzz_target;
use vcheck::common::Rhs;
use vcheck::fuzzsupport::{eval, Bytes};
use vcheck::{c01, c02, c03, c04, c05, c10};

fuzz_target!(|data: &[u8]| {
    vcheck::fuzzsupport::guarded(|| {
    let mut b = Bytes::new(data);
    let which = b.u8() % 7;
    let mode = b.u8() % 8;
    let x = b.d();
    let rk = b.u8() % 3;
    let y = match rk {
        0 => Rhs::Dec(b.d()),
        1 => Rhs::IntR(b.int()),
        _ => Rhs::IntL(b.int()),
    };
    let n = b.u8();
    match which {
        0 => eval(&c01::C01, &c01::Case { x, y }),
        1 => eval(&c02::C02, &c02::Case { x, y, mode }),
        2 => eval(&c03::C03, &c03::Case { x, y, mode }),
        3 => eval(&c10::C10, &c10::Case { x, y }),
        4 => eval(&c05::C05, &c05::Case::Round { x, n: n as i8, mode }),
        _ => {
            // Decimal/Decimal and Decimal/integer forms (the integer/integer form has an open known finding keyed on n > 18)
            let op = match n % 3 {
                0 => c04::Op::MulRounded,
                1 => c04::Op::DivRounded,
                _ => c04::Op::Quantize,
            };
            let yy = match y {
                Rhs::Dec(d) => c04::Opnd::Dec(d),
                Rhs::IntR(i) | Rhs::IntL(i) => c04::Opnd::Int(i),
            };
            eval(&c04::C04, &c04::Case { op, x: c04::Opnd::Dec(x), y: yy, n: (n >> 2) % 24, mode });
        }
    }
    });
});
