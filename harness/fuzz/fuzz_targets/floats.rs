#![no_main]
//! C12 / C13: float conversions in both directions against the exact oracle.
use libfuzzer_sys::fuzz_target;
use vcheck::fuzzsupport::{eval, Bytes};
use vcheck::{c12, c13};

fuzz_target!(|data: &[u8]| {
    vcheck::fuzzsupport::guarded(|| {
    let mut b = Bytes::new(data);
    match b.u8() % 3 {
        0 => eval(&c13::C13, &c13::Case::F64 { bits: b.u64() }),
        1 => eval(&c13::C13, &c13::Case::F32 { bits: b.u64() as u32 }),
        _ => eval(&c12::C12, &c12::Case { x: b.d() }),
    }
    });
});
