#![no_main]
//! C06: the parser against the reference parser, on an exact-size heap copy of
//! the input so that AddressSanitizer reports any read outside the string.
use libfuzzer_sys::fuzz_target;
use oracle::text::{ref_parse, RefParse};
use std::str::FromStr;

fuzz_target!(|data: &[u8]| {
    let s = match std::str::from_utf8(data) {
        Ok(s) => s,
        Err(_) => return,
    };
    // exact-size allocation: one byte before / after the string is poisoned
    let copy: Box<[u8]> = s.as_bytes().to_vec().into_boxed_slice();
    let t = unsafe { std::str::from_utf8_unchecked(&copy) };
    let got = std::panic::catch_unwind(|| fpdec::Decimal::from_str(t));
    let want = ref_parse(s);
    let bad = |why: &str| -> ! {
        eprintln!("FUZZ-VIOLATION property=C06 [{why}] from_str({s:?}): expected {want:?}, observed {:?}", got.as_ref().map(|r| r.as_ref().map(|d| (d.coefficient(), d.n_frac_digits()))));
        std::process::abort()
    };
    match (&got, &want) {
        (Err(_), _) => bad("C06/parser-panics"),
        (Ok(Ok(d)), _) if d.n_frac_digits() > 18 => bad("C06/more-than-18-digits"),
        (Ok(Ok(d)), RefParse::Ok { coeff, scale }) => {
            if d.coefficient() != *coeff || d.n_frac_digits() != *scale {
                bad("C06/wrong-value")
            }
        }
        (Ok(Err(_)), RefParse::Ok { .. }) => bad("C06/valid-literal-rejected"),
        (Ok(Ok(_)), RefParse::Err { .. }) => bad("C06/invalid-literal-accepted"),
        (Ok(Err(e)), RefParse::Err { empty, .. }) => {
            if *empty != (*e == fpdec::ParseDecimalError::Empty) {
                bad("C06/empty-kind")
            }
        }
        (Ok(Ok(d)), RefParse::AmbiguousZero) => {
            if d.coefficient() != 0 {
                bad("C06/wrong-value")
            }
        }
        (Ok(Err(_)), RefParse::AmbiguousZero) => {}
    }
    // the shared core parser must not panic either
    if std::panic::catch_unwind(|| fpdec_core::str_to_dec(t)).is_err() {
        bad("C06/parser-panics")
    }
});
