#![no_main]
//! C16: the 256-bit helpers and the wide API paths against exact big-integer division.
use libfuzzer_sys::fuzz_target;
use vcheck::c16::{Case, C16};
use vcheck::fuzzsupport::{eval, Bytes};

fuzz_target!(|data: &[u8]| {
    vcheck::fuzzsupport::guarded(|| {
    let mut b = Bytes::new(data);
    let kind = b.u8() % 4;
    let mode = b.u8() % 8;
    let case = match kind {
        0 => {
            let (a, bb, m) = (b.i128(), b.i128(), b.coeff().unsigned_abs() as i128);
            Case::Mul { a, b: bb, m: m.max(1) }
        }
        1 => Case::MulPow { a: b.i128(), b: b.i128(), p: b.u8() % 39, mode },
        2 => {
            let a = b.i128();
            let k = b.u8() % 39;
            let m = b.coeff();
            let m = if m == 0 { 1 } else { m };
            Case::Shift { a, k, m: if a == i128::MIN { m.abs() } else { m }, mode }
        }
        _ => Case::Api { x: b.d(), y: b.d(), n: b.u8() % 19, mode },
    };
    eval(&C16, &case);
    });
});
